(* Plan.v — M1: executable model of the planner
   (src/dispatch/stage.rs StagesBuilder + src/dispatch/builder.rs DispatcherBuilder).
   Models only; proofs are in PlanInv.v / PlanProps.v.

   The target computation (insertion_target) and the update (insert) of stage.rs are
   fused into one structural recursion over the stage list ([place]); this is the
   function that is extracted and compared with the real builder by suite S1. *)
From Shred Require Import Base SrcParams.
Open Scope N_scope.

(* A registered (non thread-local) system as the stages builder sees it. *)
Record sys := mkSys {
  s_tag : N;              (* harness identity of the boxed system object *)
  s_id : N;               (* SystemId handed out by DispatcherBuilder::next_id *)
  s_reads : list N;       (* accessor().reads()   (ResourceId as abstract number) *)
  s_writes : list N;      (* accessor().writes() *)
  s_time : Z;             (* running_time() as u8 *)
  s_deps : list N         (* resolved dependency ids *)
}.

(* One group = the same (stage, group) slot of the five parallel tables. *)
Record group := mkGroup {
  g_ids : list N;         (* StagesBuilder.ids[stage][group] *)
  g_reads : list N;       (* StagesBuilder.reads[stage][group] *)
  g_writes : list N;      (* StagesBuilder.writes[stage][group] *)
  g_time : Z;             (* StagesBuilder.running_time[stage][group] : u8 *)
  g_mem : list sys        (* Stage.groups[group]: the boxed systems that are executed *)
}.
Definition stage := list group.

Inductive conflict := CNone | CSingle (g : nat) | CMultiple.

(* Conflict::add *)
Definition conflict_add (c : conflict) (g : nat) : conflict :=
  match c with CNone => CSingle g | _ => CMultiple end.

(* the `inters` expression of find_conflict: new system (r1,w1) against a group (r2,w2) *)
Definition rw_conflict (r1 w1 r2 w2 : list N) : bool :=
  intersects w1 (w2 ++ r2) || intersects r1 w2.

(* the filter closure of find_conflict: (group is flagged, flagged because of a dependency only) *)
Definition flagged (reads writes dep : list N) (g : group) : bool * bool :=
  if rw_conflict reads writes (g_reads g) (g_writes g) then (true, false)
  else if intersects dep (g_ids g) then (true, true)
  else (false, false).

(* filter + fold of find_conflict, with the running group index *)
Fixpoint fc_loop (st : stage) (i : nat) (reads writes dep : list N)
         (c : conflict) (depc : bool) : conflict * bool :=
  match st with
  | [] => (c, depc)
  | g :: r =>
      let '(f, d) := flagged reads writes dep g in
      fc_loop r (S i) reads writes dep (if f then conflict_add c i else c) (depc || d)
  end.

Definition find_conflict (st : stage) (reads writes dep : list N) : conflict :=
  let '(c, depc) := fc_loop st O reads writes dep CNone false in
  if (depc && (1 <? length dep)%nat) || (negb depc && negb (match dep with [] => true | _ => false end))
  then CMultiple else c.

Definition stage_ids (st : stage) : list N := concat (map g_ids st).

(* remove_ids: every id of the stage is crossed off the pending list (all occurrences) *)
Definition remove_ids (st : stage) (dep : list N) : list N :=
  filter (fun d => negb (memN d (stage_ids st))) dep.

(* u8 / i8 arithmetic of a debug build: overflow panics *)
Open Scope Z_scope.
Definition u8_add (a b : Z) : result Z := if a + b <=? 255 then Ok (a + b) else Err EOverflow.
Definition as_i8 (z : Z) : Z := if z <? 128 then z else z - 256.
Definition i8_sub (a b : Z) : result Z :=
  let r := a - b in if (-128 <=? r) && (r <=? 127) then Ok r else Err EOverflow.
Definition i8_abs (a : Z) : result Z := if a =? -128 then Err EOverflow else Ok (Z.abs a).

Definition stage_max (st : stage) : result Z :=
  match st with
  | [] => Err EUnwrapNone                       (* iter().max().unwrap() *)
  | _ => Ok (fold_left Z.max (map g_time st) 0)
  end.

Definition improves_balance (st : stage) (g : nat) (t : Z) : result bool :=
  mx <- stage_max st ;;
  match nth_error st g with
  | None => Err EIndex
  | Some grp =>
      let old := g_time grp in
      nw <- u8_add old t ;;
      a <- i8_sub (as_i8 mx) (as_i8 nw) ;;
      a' <- i8_abs a ;;
      b <- i8_sub (as_i8 mx) (as_i8 old) ;;
      b' <- i8_abs b ;;
      Ok (a' <? b')
  end.
Close Scope Z_scope.

Inductive decision := DNew | DJoin (g : nat) | DSkip.

(* one step of the lazy map..find of insertion_target *)
Definition decide (st : stage) (s : sys) (dep : list N) : result decision :=
  match find_conflict st (s_reads s) (s_writes s) dep with
  | CNone => Ok DNew
  | CMultiple => Ok DSkip
  | CSingle g =>
      match nth_error st g with
      | None => Err EIndex
      | Some grp =>
          if (length (g_mem grp) <? cap - join_slack)%nat
          then b <- improves_balance st g (s_time s) ;; Ok (if b then DJoin g else DSkip)
          else Ok DSkip
      end
  end.

Definition empty_group : group := mkGroup [] [] [] 0%Z [].

(* the five pushes at the end of insert *)
Definition push_sys (s : sys) (g : group) : result group :=
  if (length (g_mem g) <? cap)%nat then
    t <- u8_add (g_time g) (s_time s) ;;
    Ok (mkGroup (g_ids g ++ [s_id s]) (g_reads g ++ s_reads s) (g_writes g ++ s_writes s)
                t (g_mem g ++ [s]))
  else Err ECapacity.

Fixpoint upd_group (i : nat) (f : group -> result group) (st : stage) : result stage :=
  match st, i with
  | [], _ => Err EIndex
  | g :: r, O => g' <- f g ;; Ok (g' :: r)
  | g :: r, S i' => r' <- upd_group i' f r ;; Ok (g :: r')
  end.

Fixpoint place (sts : list stage) (s : sys) (dep : list N) : result (list stage) :=
  match sts with
  | [] => g <- push_sys s empty_group ;; Ok [[g]]
  | st :: rest =>
      d <- decide st s dep ;;
      match d with
      | DNew => g <- push_sys s empty_group ;; Ok ((st ++ [g]) :: rest)
      | DJoin i => st' <- upd_group i (push_sys s) st ;; Ok (st' :: rest)
      | DSkip => rest' <- place rest s (remove_ids st dep) ;; Ok (st :: rest')
      end
  end.

(* dependencies located in front of the barrier are crossed off before the scan *)
Definition cross_off (pre : list stage) (dep : list N) : list N :=
  fold_left (fun d st => remove_ids st d) pre dep.

Definition sb_insert (barrier : nat) (stages : list stage) (s : sys) : result (list stage) :=
  let pre := firstn barrier stages in
  let post := skipn barrier stages in
  post' <- place post s (cross_off pre (s_deps s)) ;;
  Ok (pre ++ post').

(* ---------------- DispatcherBuilder ---------------- *)

Record builder := mkB {
  b_next : N;                          (* current_id *)
  b_names : list (name * N);           (* map: name -> SystemId (non-empty names only) *)
  b_barrier : nat;                     (* stages_builder.barrier *)
  b_stages : list stage;               (* stages_builder tables *)
  b_tl : list N                        (* thread_local (tags, registration order) *)
}.

Definition empty_builder : builder := mkB 0 [] O [] [].

Fixpoint lookup_name (n : name) (m : list (name * N)) : option N :=
  match m with
  | [] => None
  | (k, v) :: r => if name_eqb n k then Some v else lookup_name n r
  end.

Fixpoint resolve_deps (m : list (name * N)) (deps : list name) : result (list N) :=
  match deps with
  | [] => Ok []
  | d :: r =>
      match lookup_name d m with
      | None => Err (ENoSuch d)
      | Some id => ids <- resolve_deps m r ;; Ok (id :: ids)
      end
  end.

(* DispatcherBuilder::add *)
Definition add (b : builder) (tag : N) (nm : name) (deps : list name)
           (reads writes : list N) (time : Z) : result builder :=
  let id := b_next b in
  ids <- resolve_deps (b_names b) deps ;;
  names' <- (if is_empty_name nm then Ok (b_names b)
             else match lookup_name nm (b_names b) with
                  | Some _ => Err (EDup nm)
                  | None => Ok (b_names b ++ [(nm, id)])
                  end) ;;
  stages' <- sb_insert (b_barrier b) (b_stages b) (mkSys tag id reads writes time ids) ;;
  Ok (mkB (N.succ id) names' (b_barrier b) stages' (b_tl b)).

Definition add_barrier (b : builder) : builder :=
  mkB (b_next b) (b_names b) (length (b_stages b)) (b_stages b) (b_tl b).

Definition add_thread_local (b : builder) (tag : N) : builder :=
  mkB (b_next b) (b_names b) (b_barrier b) (b_stages b) (b_tl b ++ [tag]).

(* fetch_all_reads / fetch_all_writes (sort and dedup dropped: only membership is used) *)
Definition all_reads (b : builder) : list N := concat (map g_reads (concat (b_stages b))).
Definition all_writes (b : builder) : list N := concat (map g_writes (concat (b_stages b))).

(* Registration programs. *)
Inductive reg :=
| RSys (tag : N) (nm : name) (deps : list name) (reads writes : list N) (time : Z)
| RBatch (tag : N) (nm : name) (deps : list name) (creads cwrites : list N) (time : Z)
         (count : N) (inner : list reg)
| RTL (tag : N)
| RBarrier.

(* One registration call on a builder; a batch first runs the calls on its own builder. *)
Fixpoint run_reg (r : reg) (b : builder) : result builder :=
  match r with
  | RSys tag nm deps reads writes time => add b tag nm deps reads writes time
  | RBatch tag nm deps cr cw time _ inner =>
      bi <- (fix run_list (rs : list reg) (bi : builder) {struct rs} : result builder :=
               match rs with
               | [] => Ok bi
               | r' :: rs' => bi' <- run_reg r' bi ;; run_list rs' bi'
               end) inner empty_builder ;;
      add b tag nm deps (all_reads bi ++ cr) (all_writes bi ++ cw) time
  | RTL tag => Ok (add_thread_local b tag)
  | RBarrier => Ok (add_barrier b)
  end.

Fixpoint run_regs (rs : list reg) (b : builder) : result builder :=
  match rs with
  | [] => Ok b
  | r :: rs' => b' <- run_reg r b ;; run_regs rs' b'
  end.

Definition plan (rs : list reg) : result builder := run_regs rs empty_builder.

(* ---------------- observations ---------------- *)

Definition layout_tags (b : builder) : list (list (list N)) :=
  map (fun st => map (fun g => map s_tag (g_mem g)) st) (b_stages b).
Definition layout_ids (b : builder) : list (list (list N)) :=
  map (fun st => map g_ids st) (b_stages b).
Definition shape (b : builder) : list (list nat) :=
  map (fun st => map (fun g => length (g_mem g)) st) (b_stages b).

(* SendDispatcher::max_threads *)
Definition max_threads (b : builder) : nat := maxnat (map (@length group) (b_stages b)).

(* Dispatcher::try_into_sendable succeeds *)
Definition sendable (b : builder) : bool := match b_tl b with [] => true | _ => false end.
