(* NestedComplete.v — the nested acceptor accepts EVERY nested trace of the model: with naccept_sound it
   decides the nested trace set, so the `naccept` check of suite S2 cannot raise an alarm on a run that is
   a nested run of the model. *)
From Shred Require Import Base SrcParams Plan PlanObs PlanLemmas PlanInv PlanLoc PlanBuild PlanProps BatchProps
  Exec ExecProps AcceptComplete ExecObs NestedObs ExecPlan TraceOracles ExecOracles NestedExec NestedAccept.
From Coq Require Import Permutation.
Open Scope N_scope.

(* ---------------- lengths ---------------- *)

Lemma proj_partition A B tr : (forall e, In e tr -> In (ev_tag e) A \/ In (ev_tag e) B) -> (forall x, In x A -> ~ In x B) ->
  length tr = (length (proj A tr) + length (proj B tr))%nat.
Proof.
  intros Hall Dj. induction tr as [|e r IH]; [reflexivity|]. unfold proj in *. cbn [filter length].
  assert (Hr : forall e0, In e0 r -> In (ev_tag e0) A \/ In (ev_tag e0) B) by (intros; apply Hall; now right).
  destruct (Hall e (or_introl eq_refl)) as [Ha|Hb].
  - rewrite (proj2 (memN_In _ _) Ha), (proj2 (memN_false _ _) (Dj _ Ha)). cbn [length]. rewrite (IH Hr). lia.
  - assert (Hna : ~ In (ev_tag e) A) by (intros Ha; now apply (Dj _ Ha)).
    rewrite (proj2 (memN_false _ _) Hna), (proj2 (memN_In _ _) Hb). cbn [length]. rewrite (IH Hr). lia.
Qed.

Lemma run_len_fix inner :
  (fix go (rs : list reg) : nat := match rs with [] => O | r' :: rs' => (reg_events r' + go rs')%nat end) inner = run_len inner.
Proof. unfold run_len. induction inner as [|r rs IH]; [reflexivity|]. cbn [fold_right]. now rewrite <- IH. Qed.

Lemma reg_events_batch t nm deps cr cw tm cnt inner :
  reg_events (RBatch t nm deps cr cw tm cnt inner) = (2 + N.to_nat cnt * run_len inner)%nat.
Proof. cbn [reg_events]. now rewrite run_len_fix. Qed.

Lemma reps_concat_inv (P : list ev -> Prop) : forall k runs, reps P k runs -> exists cs, runs = concat cs /\ length cs = k /\ Forall P cs.
Proof.
  induction k as [|k IH]; intros runs R; cbn in R.
  - subst. exists []. auto.
  - destruct R as (t1 & t2 & P1 & R2 & ->). destruct (IH t2 R2) as (cs & -> & L & F). exists (t1 :: cs). cbn. auto.
Qed.

Lemma concat_len (cs : list (list ev)) len : Forall (fun c => length c = len) cs -> length (concat cs) = (length cs * len)%nat.
Proof. induction 1 as [|c cs Hc _ IH]; [reflexivity|]. cbn [concat length]. rewrite app_length, IH, Hc. lia. Qed.

Lemma level_len rs b tr : plan rs = Ok b -> Forall reg_time_ok1 rs ->
  traces_disp (layout_tags b) (b_tl b) tr -> length tr = (2 * length (sys_tags rs ++ tl_tags rs))%nat.
Proof.
  intros H Ht Tr. rewrite (Permutation_length (trace_perm_seq _ _ _ Tr)). unfold trace_seq.
  fold (seq_staged (layout_tags b)). rewrite seq_staged_flat, <- group_trace_app, group_trace_length.
  rewrite (plan_tl_order rs b H), !app_length. f_equal. f_equal.
  apply Permutation_length. apply (plan_exec_perm rs b H Ht).
Qed.

(* the events below the top level, batch by batch *)
Lemma deep_len : forall rs tr,
  (forall t nm deps cr cw tm cnt inner, In (RBatch t nm deps cr cw tm cnt inner) rs ->
     length (proj (tree_tags inner) tr) = (N.to_nat cnt * run_len inner)%nat) ->
  NoDup (deep_tags rs) ->
  (length (proj (deep_tags rs) tr) + 2 * length (sys_tags rs ++ tl_tags rs) = run_len rs)%nat.
Proof.
  intros rs tr. induction rs as [|r rs IH]; intros HB ND; [unfold deep_tags; cbn [map concat]; rewrite (proj_none [] tr) by (intros e _ []); reflexivity|].
  assert (HB' : forall t nm deps cr cw tm cnt inner, In (RBatch t nm deps cr cw tm cnt inner) rs ->
            length (proj (tree_tags inner) tr) = (N.to_nat cnt * run_len inner)%nat) by (intros; eapply HB; right; eauto).
  unfold deep_tags in *. cbn [map concat] in *. fold (deep_tags rs) in *.
  assert (Split : length (proj (inner_tags r ++ deep_tags rs) tr) = (length (proj (inner_tags r) tr) + length (proj (deep_tags rs) tr))%nat).
  { rewrite (proj_partition (inner_tags r) (deep_tags rs) (proj (inner_tags r ++ deep_tags rs) tr)).
    - rewrite !proj_sub; auto; intros x Hx; apply in_or_app; auto.
    - intros e He. apply proj_In' in He. destruct He as [_ He]. now apply in_app_or in He.
    - intros x Hx. eapply nd_app_disj'; eauto. }
  rewrite Split. specialize (IH HB' (NoDup_app_remove_l _ _ ND)).
  change (run_len (r :: rs)) with (reg_events r + run_len rs)%nat.
  destruct r as [t nm deps rd wr tm|t nm deps cr cw tm cnt inner|t|].
  - cbn [inner_tags sys_tags tl_tags reg_tag reg_events]. rewrite (proj_none [] tr) by (intros e _ []).
    cbn [length app]. rewrite !app_length in *. cbn [length]. lia.
  - rewrite reg_events_batch. cbn [inner_tags sys_tags tl_tags reg_tag].
    rewrite (HB t nm deps cr cw tm cnt inner (or_introl eq_refl)).
    cbn [app length]. rewrite !app_length in *. cbn [length]. lia.
  - cbn [inner_tags sys_tags tl_tags reg_tag reg_events]. rewrite (proj_none [] tr) by (intros e _ []).
    cbn [length app]. rewrite !app_length in *. cbn [length]. lia.
  - cbn [inner_tags sys_tags tl_tags reg_tag reg_events]. rewrite (proj_none [] tr) by (intros e _ []). cbn [length app]. lia.
Qed.

Lemma ntr_len : forall n rs tr, ntr n rs tr -> wf rs -> length tr = run_len rs.
Proof.
  induction n as [|n IH]; intros rs tr N W; [destruct N|]. destruct N as (b & H & Tr & All & Bat). destruct W as [Wt ND].
  pose proof (regs_times_ok1 _ Wt) as Ht1.
  assert (NDp : NoDup ((sys_tags rs ++ tl_tags rs) ++ deep_tags rs)) by (eapply Permutation_NoDup; [apply tree_perm|exact ND]).
  rewrite (proj_partition (sys_tags rs ++ tl_tags rs) (deep_tags rs) tr).
  - rewrite (level_len rs b _ H Ht1 Tr). rewrite Nat.add_comm. apply deep_len; [|eapply NoDup_app_remove_l; eauto].
    intros t nm deps cr cw tm cnt inner Hin. destruct (Bat _ _ _ _ _ _ _ _ Hin) as (pre & mid & post & E & Out & R).
    destruct (batch_nd rs _ _ _ _ _ _ _ _ ND Hin) as [NDi Hti].
    rewrite (inner_proj (tree_tags inner) (tree_tags inner) tr t pre mid post E Out Hti (fun x Hx => Hx)).
    rewrite proj_sub by auto.
    destruct (reps_concat_inv _ _ _ R) as (cs & -> & L & F). rewrite <- L. apply concat_len.
    rewrite Forall_forall in *. intros c Hc. apply IH; auto. eapply wf_inner; eauto. split; eauto.
  - intros e He. apply in_app_or. apply (Permutation_in _ (tree_perm rs)). now apply All.
  - intros x Hx. eapply nd_app_disj'; eauto.
Qed.

Lemma split_ev_first x : forall a b, ~ In x a -> split_ev x (a ++ x :: b) = Some (a, b).
Proof.
  induction a as [|e a IH]; intros b Hn; cbn [app split_ev].
  - assert (E : ev_eqb x x = true) by now apply ev_eqb_eq. now rewrite E.
  - destruct (ev_eqb e x) eqn:E; [apply ev_eqb_eq in E; subst; exfalso; apply Hn; now left|].
    rewrite IH; auto. intros X. apply Hn. now right.
Qed.

Lemma chunks_concat len : forall cs, Forall (fun c => length c = len) cs -> chunks len (length cs) (concat cs) = Some cs.
Proof.
  induction 1 as [|c cs Hc _ IH]; [reflexivity|]. cbn [length concat chunks].
  rewrite skipn_app, <- Hc, skipn_all, Nat.sub_diag. cbn [skipn app]. rewrite Hc, IH.
  rewrite <- Hc. rewrite firstn_app, firstn_all, Nat.sub_diag. cbn [firstn]. now rewrite app_nil_r.
Qed.

(* every nested trace of the model is accepted *)
Theorem naccept_complete : forall n rs tr, ntr n rs tr -> wf rs -> naccept n rs tr = true.
Proof.
  induction n as [|n IH]; intros rs tr N W; [destruct N|]. pose proof N as N0. destruct N as (b & H & Tr & All & Bat).
  destruct W as [Wt ND]. pose proof (regs_times_ok1 _ Wt) as Ht1.
  cbn [naccept]. rewrite H. apply andb_true_iff. split; [apply andb_true_iff; split|].
  - apply accept_complete; auto. eapply placed_tags_nodup; eauto. eapply NoDup_app_remove_r. apply (nd_level _ ND).
  - apply forallb_forall. intros e He. apply memN_In. auto.
  - apply forallb_forall. intros r Hr. destruct r as [t nm deps rd wr tm|t nm deps cr cw tm cnt inner|t|]; auto.
    destruct (Bat _ _ _ _ _ _ _ _ Hr) as (pre & mid & post & E & Out & R).
    assert (Hl : In t (sys_tags rs ++ tl_tags rs)) by (apply in_or_app; left; apply (in_sys_tags rs _ t Hr eq_refl)).
    destruct (top_events rs b tr t H (conj Wt ND) Tr Hl) as (C1 & C2 & _).
    destruct (once_not_elsewhere (EF t) tr pre (mid ++ ER t :: post) C1 E) as [A1 _].
    assert (E' : tr = (pre ++ EF t :: mid) ++ ER t :: post) by (rewrite E; now rewrite <- app_assoc).
    destruct (once_not_elsewhere (ER t) tr _ post C2 E') as [B1 _].
    rewrite E at 1. rewrite (split_ev_first (EF t) pre _ A1).
    rewrite (split_ev_first (ER t) mid post) by (intros X; apply B1; apply in_or_app; right; now right).
    apply andb_true_iff. split.
    + apply forallb_forall. intros e He. apply negb_true_iff. apply memN_false. now apply Out.
    + destruct (reps_concat_inv _ _ _ R) as (cs & Ec & L & F). rewrite Ec, <- L.
      assert (WI : wf inner) by (eapply wf_inner; eauto; split; eauto).
      rewrite (chunks_concat (run_len inner) cs).
      * apply forallb_forall. intros c Hc. rewrite Forall_forall in F. apply IH; auto.
      * rewrite Forall_forall in *. intros c Hc. apply (ntr_len n inner c); auto.
Qed.

Corollary naccept_iff n rs tr : wf rs -> (naccept n rs tr = true <-> ntr n rs tr).
Proof. intros W. split; [now apply naccept_sound|intros N; now apply naccept_complete]. Qed.
