(* ParSeq.v — M6: trees of par! / seq! nodes (src/dispatch/par_seq.rs).  An n-ary node is what
   the macros build: new(head).with(c2)...with(cn).  Model only; proofs in ParSeqProps.v. *)
From Shred Require Import Base Plan Exec.
Open Scope N_scope.

Inductive tree :=
| TLeaf (t : N) (reads writes : list N)
| TPar (l : list tree)
| TSeq (l : list tree).

Fixpoint t_reads (t : tree) : list N :=
  match t with
  | TLeaf _ r _ => r
  | TPar l | TSeq l => (fix go (l : list tree) : list N := match l with [] => [] | c :: r => t_reads c ++ go r end) l
  end.
Fixpoint t_writes (t : tree) : list N :=
  match t with
  | TLeaf _ _ w => w
  | TPar l | TSeq l => (fix go (l : list tree) : list N := match l with [] => [] | c :: r => t_writes c ++ go r end) l
  end.
Fixpoint t_leaves (t : tree) : list N :=
  match t with
  | TLeaf x _ _ => [x]
  | TPar l | TSeq l => (fix go (l : list tree) : list N := match l with [] => [] | c :: r => t_leaves c ++ go r end) l
  end.

(* the debug check of Par::with: the accumulated head (all children so far) against the new child *)
Definition with_conflict (racc wacc : list N) (c : tree) : bool :=
  intersects wacc (t_reads c) || intersects wacc (t_writes c) || intersects racc (t_writes c).

(* children are added left to right; [par_check] = index of the first child whose `with` panics *)
Fixpoint par_check (racc wacc : list N) (i : nat) (l : list tree) : option nat :=
  match l with
  | [] => None
  | c :: r => if with_conflict racc wacc c then Some i
              else par_check (racc ++ t_reads c) (wacc ++ t_writes c) (S i) r
  end.
Definition par_ok (l : list tree) : option nat :=
  match l with
  | [] => None
  | c :: r => par_check (t_reads c) (t_writes c) 1 r
  end.

(* building a tree bottom-up, children left to right: does some `with` panic (debug build)? *)
Fixpoint build_panics (t : tree) : bool :=
  match t with
  | TLeaf _ _ _ => false
  | TSeq l => (fix go (l : list tree) : bool := match l with [] => false | c :: r => build_panics c || go r end) l
  | TPar l => (fix go (l : list tree) : bool := match l with [] => false | c :: r => build_panics c || go r end) l
              || match par_ok l with Some _ => true | None => false end
  end.

(* ---------------- traces ---------------- *)

Fixpoint tr_tree (t : tree) (tr : list ev) : Prop :=
  match t with
  | TLeaf x _ _ => tr = [EF x; ER x]
  | TSeq l =>
      (fix seqs (l : list tree) (tr : list ev) : Prop :=
         match l with
         | [] => tr = []
         | c :: r => exists t1 t2, tr_tree c t1 /\ seqs r t2 /\ tr = t1 ++ t2
         end) l tr
  | TPar l =>
      exists ts,
        (fix all (l : list tree) (ts : list (list ev)) : Prop :=
           match l, ts with
           | [], [] => True
           | c :: r, t1 :: ts' => tr_tree c t1 /\ all r ts'
           | _, _ => False
           end) l ts /\ ShuffleN ts tr
  end.

(* the one trace in which nothing overlaps (what a pool of one thread does) *)
Fixpoint seq_trace (t : tree) : list ev :=
  match t with
  | TLeaf x _ _ => [EF x; ER x]
  | TPar l | TSeq l => (fix go (l : list tree) : list ev := match l with [] => [] | c :: r => seq_trace c ++ go r end) l
  end.

(* ---------------- executable oracle for recorded traces ---------------- *)

Definition all_before (a b : list N) (tr : list ev) : bool :=
  (* every event of a tag of [a] occurs before every event of a tag of [b] *)
  let fix go (tr : list ev) (seen_b : bool) : bool :=
    match tr with
    | [] => true
    | e :: r => if memN (ev_tag e) b then go r true
                else if memN (ev_tag e) a then negb seen_b && go r seen_b
                else go r seen_b
    end in go tr false.

Fixpoint seq_pairs_ok (l : list tree) (tr : list ev) : bool :=
  match l with
  | [] => true
  | c :: r => forallb (fun d => all_before (t_leaves c) (t_leaves d) tr) r && seq_pairs_ok r tr
  end.

Fixpoint order_ok (t : tree) (tr : list ev) : bool :=
  match t with
  | TLeaf _ _ _ => true
  | TPar l => (fix go (l : list tree) : bool := match l with [] => true | c :: r => order_ok c tr && go r end) l
  | TSeq l => (fix go (l : list tree) : bool := match l with [] => true | c :: r => order_ok c tr && go r end) l
              && seq_pairs_ok l tr
  end.

Definition tree_accept (t : tree) (tr : list ev) : bool :=
  o_once (t_leaves t) tr && order_ok t tr.
