(* AcceptComplete.v — the trace acceptor of suite S2 is complete: it accepts EVERY trace of the
   executor model.  Together with accept_sound: it accepts exactly the model's traces, so an
   `accept` disagreement means precisely "the recorded run is not a run of the model". *)
From Shred Require Import Base Plan PlanLemmas Exec ExecProps.
From Coq Require Import Permutation.
Open Scope N_scope.

Lemma shuffle_filter_other (p : ev -> bool) a b c : Shuffle a b c -> (forall e, In e a -> p e = false) -> filter p c = filter p b.
Proof.
  induction 1 as [|x a b c S IH|x a b c S IH]; intros H; [reflexivity| |].
  - cbn [filter]. rewrite (H x (or_introl eq_refl)). apply IH. intros; apply H; now right.
  - cbn [filter]. rewrite IH; auto.
Qed.
Lemma shuffle_filter_own (p : ev -> bool) a b c : Shuffle a b c ->
  (forall e, In e a -> p e = true) -> (forall e, In e b -> p e = false) -> filter p c = a.
Proof.
  induction 1 as [|x a b c S IH|x a b c S IH]; intros Ha Hb; [reflexivity| |].
  - cbn [filter]. rewrite (Ha x (or_introl eq_refl)). f_equal. apply IH; auto. intros; apply Ha; now right.
  - cbn [filter]. rewrite (Hb x (or_introl eq_refl)). apply IH; auto. intros; apply Hb; now right.
Qed.

Lemma nd_disj {A} (a c : list A) x : NoDup (a ++ c) -> In x a -> ~ In x c.
Proof.
  induction a as [|y a IH]; cbn; intros H Hin; [destruct Hin|]. inversion H as [|? ? Hn ND]; subst.
  destruct Hin as [->|Hin]; [|auto]. intros Hc. apply Hn. apply in_or_app. now right.
Qed.

Lemma stage_proj : forall st seg, NoDup (concat st) -> stage_traces st seg ->
  forall g, In g st -> proj g seg = group_trace g.
Proof.
  unfold stage_traces. induction st as [|g0 st IH]; intros seg ND H g Hg; [destruct Hg|].
  cbn [map] in H. inversion H as [|? ? t ? HN HS]; subst. cbn [concat] in ND.
  assert (Tin : forall e, In e t -> In (ev_tag e) (concat st)) by (intros e He; now apply (stage_trace_In st t e HN)).
  destruct Hg as [->|Hg].
  - unfold proj. apply (shuffle_filter_own _ _ _ _ HS).
    + intros e He. apply memN_In. now apply group_trace_In.
    + intros e He. apply memN_false. intros X. apply (nd_disj _ _ _ ND X). now apply Tin.
  - unfold proj. rewrite (shuffle_filter_other _ _ _ _ HS).
    + apply (IH t); auto. eapply NoDup_app_remove_l; eauto.
    + intros e He. apply memN_false. intros X. apply group_trace_In in He. apply (nd_disj _ _ _ ND He).
      apply in_concat. exists g. auto.
Qed.

Lemma group_trace_len g : length (group_trace g) = (2 * length g)%nat.
Proof. induction g as [|x g IH]; [reflexivity|]. change (group_trace (x :: g)) with (EF x :: ER x :: group_trace g). cbn [length]. rewrite IH. lia. Qed.

Lemma stage_len st seg : stage_traces st seg -> length seg = (2 * length (concat st))%nat.
Proof.
  intros H. apply shuffleN_perm in H. rewrite (Permutation_length H). clear.
  induction st as [|g st IH]; [reflexivity|]. cbn [map concat]. rewrite !app_length, IH, group_trace_len. lia.
Qed.

Lemma accept_stage_complete st seg : NoDup (concat st) -> stage_traces st seg -> accept_stage st seg = true.
Proof.
  intros ND H. unfold accept_stage. apply andb_true_iff. split.
  - apply forallb_forall. intros g Hg. rewrite (stage_proj st seg ND H g Hg).
    generalize (group_trace g). intros l. induction l as [|e l IH]; cbn; auto. rewrite IH.
    assert (X : ev_eqb e e = true) by now apply ev_eqb_eq. now rewrite X.
  - apply forallb_forall. intros e He. apply memN_In. now apply (stage_trace_In st seg e H).
Qed.

Lemma accept_staged_complete : forall l t1 rest, NoDup (concat (concat l)) -> staged_traces l t1 ->
  accept_staged l (t1 ++ rest) = Some rest.
Proof.
  induction l as [|st l IH]; intros t1 rest ND H.
  - inversion H; subst. reflexivity.
  - inversion H as [|? ? s1 s2 H1 H2]; subst. cbn [accept_staged]. cbn [concat] in ND. rewrite concat_app in ND.
    rewrite <- (stage_len st s1 H1). rewrite <- app_assoc.
    rewrite firstn_app, Nat.sub_diag, firstn_all. cbn [firstn]. rewrite app_nil_r.
    rewrite (accept_stage_complete st s1 (NoDup_app_remove_r _ _ ND) H1).
    rewrite skipn_app, Nat.sub_diag, skipn_all. cbn [skipn app].
    apply IH; auto. eapply NoDup_app_remove_l; eauto.
Qed.

(* every trace of the model is accepted *)
Theorem accept_complete l tl tr : NoDup (concat (concat l)) -> traces_disp l tl tr -> accept_disp l tl tr = true.
Proof.
  intros ND (t1 & H & ->). unfold accept_disp. rewrite (accept_staged_complete l t1 (group_trace tl) ND H).
  generalize (group_trace tl). intros x. induction x as [|e x IH]; cbn; auto. rewrite IH.
  assert (X : ev_eqb e e = true) by now apply ev_eqb_eq. now rewrite X.
Qed.

(* the acceptor decides membership in the trace set *)
Corollary accept_iff l tl tr : NoDup (concat (concat l)) -> (accept_disp l tl tr = true <-> traces_disp l tl tr).
Proof. intros ND. split; [now apply accept_sound|now apply accept_complete]. Qed.
