#!/bin/bash
# try_mutant.sh PATCH PROP... : apply PATCH to /repo, run the quick checks, revert
set -u
patch=$1; shift
cd /repo || exit 2
if ! git diff --quiet; then echo "/repo dirty"; exit 2; fi
git apply "$patch" || { echo "patch does not apply"; exit 2; }
cd /verif
rm -rf /tmp/evidence.bak && cp -r evidence /tmp/evidence.bak
for p in "$@"; do
  echo "=== $p"
  timeout 1500 python3 tools/check.py $p --tier quick 2>/dev/null | grep -E "VIOLATION|KNOWN|PASS|FAIL" | cut -c1-300
done
git -C /repo checkout -- . 
rm -rf evidence && mv /tmp/evidence.bak evidence
git -C /repo status --short | head -3
