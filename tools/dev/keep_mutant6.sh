#!/bin/bash
# keep_mutant6.sh FID NEWID : confirm a free-choice (round 6+) mutant in its worktree /tmp/mut${ROUND:-6}/FID and store it as seeded/NEWID
set -u
fid=$1; id=$2; wt=/tmp/mut${ROUND:-6}/$fid
export CARGO_NET_OFFLINE=true CARGO_TARGET_DIR=$wt/target
cd $wt || exit 2
git diff -- src shred-derive > /tmp/mut${ROUND:-6}/$fid.patch
[ -s /tmp/mut${ROUND:-6}/$fid.patch ] || { echo "no change in worktree"; exit 2; }
cargo test --workspace --no-fail-fast --offline 2>&1 | grep -E "^test result|Running|FAILED|failed" > /tmp/mut${ROUND:-6}/$fid.with.log
with_demo_fail=$(grep -A2 "mutant_demo" /tmp/mut${ROUND:-6}/$fid.with.log | grep -c "FAILED")
others_fail=$(awk '/Running/{cur=$0} /test result: FAILED/{if (cur !~ /mutant_demo/) n++} END{print n+0}' /tmp/mut${ROUND:-6}/$fid.with.log)
git apply -R /tmp/mut${ROUND:-6}/$fid.patch
cargo test --offline --test mutant_demo 2>&1 | grep -E "^test result" > /tmp/mut${ROUND:-6}/$fid.without.log
without_ok=$(grep -c "test result: ok" /tmp/mut${ROUND:-6}/$fid.without.log)
git apply /tmp/mut${ROUND:-6}/$fid.patch
echo "$fid: with change: demo FAILED=$with_demo_fail other failing targets=$others_fail ; without change: demo ok=$without_ok"
if [ "$with_demo_fail" -ge 1 ] && [ "$others_fail" -eq 0 ] && [ "$without_ok" -ge 1 ]; then
  d=/verif/seeded/$id; mkdir -p $d
  cp /tmp/mut${ROUND:-6}/$fid.patch $d/patch.diff
  cp $wt/tests/mutant_demo.rs $d/mutant_demo.rs
  [ -f $wt/MUTANT.md ] && cp $wt/MUTANT.md $d/MUTANT.md
  echo "kept $d"
else
  echo "NOT kept"; cat /tmp/mut${ROUND:-6}/$fid.with.log /tmp/mut${ROUND:-6}/$fid.without.log
fi
