#!/bin/bash
# keep_mutant.sh ID PROP : confirm the mutant in /tmp/mut/ID (suite passes with it, demo fails with it, demo passes without),
# store it as /verif/seeded/ID/, remove the worktree
set -u
id=$1; prop=$2; wt=/tmp/mut/$id
export CARGO_NET_OFFLINE=true CARGO_TARGET_DIR=$wt/target
cd $wt || exit 2
git diff -- src shred-derive > /tmp/mut/$id.patch
[ -s /tmp/mut/$id.patch ] || { echo "no change in worktree"; exit 2; }
# with the change: existing suite (everything but the demo)
cargo test --workspace --no-fail-fast --offline 2>&1 | grep -E "^test result|Running|FAILED|failed" > /tmp/mut/$id.with.log
with_demo_fail=$(grep -A2 "mutant_demo" /tmp/mut/$id.with.log | grep -c "FAILED")
others_fail=$(awk '/Running/{cur=$0} /test result: FAILED/{if (cur !~ /mutant_demo/) n++} END{print n+0}' /tmp/mut/$id.with.log)
git apply -R /tmp/mut/$id.patch
cargo test --offline --test mutant_demo 2>&1 | grep -E "^test result" > /tmp/mut/$id.without.log
without_ok=$(grep -c "test result: ok" /tmp/mut/$id.without.log)
git apply /tmp/mut/$id.patch
echo "with change: demo FAILED=$with_demo_fail other failing targets=$others_fail ; without change: demo ok=$without_ok"
if [ "$with_demo_fail" -ge 1 ] && [ "$others_fail" -eq 0 ] && [ "$without_ok" -ge 1 ]; then
  d=/verif/seeded/$id; mkdir -p $d
  cp /tmp/mut/$id.patch $d/patch.diff
  cp $wt/tests/mutant_demo.rs $d/mutant_demo.rs
  [ -f $wt/MUTANT.md ] && cp $wt/MUTANT.md $d/MUTANT.md
  echo "kept $d"
else
  echo "NOT kept"; cat /tmp/mut/$id.with.log /tmp/mut/$id.without.log
fi
