#!/bin/bash
# sandbox_try.sh PATCH PROP... : like try_mutant.sh, but on private copies kept under ${SB:-/tmp/sb} (verif synced from /verif at
# every call, repo = scratch worktree of /repo), so that /repo and /verif stay free.  `sandbox_try.sh --clean` removes them.
set -u
if [ "${1:-}" = "--clean" ]; then git -C /repo worktree remove --force ${SB:-/tmp/sb}/repo 2>/dev/null; rm -rf ${SB:-/tmp/sb}; exit 0; fi
patch=$1; shift
mkdir -p ${SB:-/tmp/sb}
[ -d ${SB:-/tmp/sb}/repo ] || git -C /repo worktree add --detach ${SB:-/tmp/sb}/repo HEAD >/dev/null 2>&1 || { echo "cannot create worktree"; exit 2; }
git -C ${SB:-/tmp/sb}/repo checkout -q --detach $(git -C /repo rev-parse HEAD) 2>/dev/null; git -C ${SB:-/tmp/sb}/repo checkout -- .; git -C ${SB:-/tmp/sb}/repo clean -fdq src shred-derive
rsync -a --delete --exclude .build --exclude target --exclude replays --exclude .git --exclude evidence /verif/ ${SB:-/tmp/sb}/verif/
mkdir -p ${SB:-/tmp/sb}/verif/evidence
sed -i "s|path = \"/repo\"|path = \"${SB:-/tmp/sb}/repo\"|" ${SB:-/tmp/sb}/verif/harness/Cargo.toml ${SB:-/tmp/sb}/verif/harness_sd/Cargo.toml
sed -i "s|path = \\\\\"/repo\\\\\"|path = \\\\\"${SB:-/tmp/sb}/repo\\\\\"|" ${SB:-/tmp/sb}/verif/tools/gen_sysdata.py 2>/dev/null
git -C ${SB:-/tmp/sb}/repo apply "$patch" || { echo "patch does not apply"; exit 2; }
cd ${SB:-/tmp/sb}/verif
export VERIF_REPO=${SB:-/tmp/sb}/repo
for p in "$@"; do
  echo "=== $p"
  timeout 1700 python3 tools/check.py $p --tier quick 2>/dev/null | grep -E "VIOLATION|KNOWN|PASS|FAIL" | cut -c1-300
done
git -C ${SB:-/tmp/sb}/repo checkout -- .; git -C ${SB:-/tmp/sb}/repo clean -fdq src shred-derive
