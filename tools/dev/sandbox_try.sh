#!/bin/bash
# sandbox_try.sh PATCH PROP... : like try_mutant.sh, but on private copies kept under /tmp/sb (verif synced from /verif at
# every call, repo = scratch worktree of /repo), so that /repo and /verif stay free.  `sandbox_try.sh --clean` removes them.
set -u
if [ "${1:-}" = "--clean" ]; then git -C /repo worktree remove --force /tmp/sb/repo 2>/dev/null; rm -rf /tmp/sb; exit 0; fi
patch=$1; shift
mkdir -p /tmp/sb
[ -d /tmp/sb/repo ] || git -C /repo worktree add --detach /tmp/sb/repo HEAD >/dev/null 2>&1 || { echo "cannot create worktree"; exit 2; }
git -C /tmp/sb/repo checkout -q --detach $(git -C /repo rev-parse HEAD) 2>/dev/null; git -C /tmp/sb/repo checkout -- .
rsync -a --delete --exclude .build --exclude target --exclude replays --exclude .git --exclude evidence /verif/ /tmp/sb/verif/
mkdir -p /tmp/sb/verif/evidence
sed -i 's|path = "/repo"|path = "/tmp/sb/repo"|' /tmp/sb/verif/harness/Cargo.toml /tmp/sb/verif/harness_sd/Cargo.toml
sed -i 's|path = \\"/repo\\"|path = \\"/tmp/sb/repo\\"|' /tmp/sb/verif/tools/gen_sysdata.py 2>/dev/null
git -C /tmp/sb/repo apply "$patch" || { echo "patch does not apply"; exit 2; }
cd /tmp/sb/verif
export VERIF_REPO=/tmp/sb/repo
for p in "$@"; do
  echo "=== $p"
  timeout 1700 python3 tools/check.py $p --tier quick 2>/dev/null | grep -E "VIOLATION|KNOWN|PASS|FAIL" | cut -c1-300
done
git -C /tmp/sb/repo checkout -- .
