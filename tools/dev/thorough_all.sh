#!/bin/bash
# run the thorough tier of every registered check (development aid; waits while /repo is dirty)
python3 tools/setup.py >/dev/null 2>&1
for p in "$@"; do
  while ! git -C /repo diff --quiet; do sleep 3; done
  s=$(date +%s)
  out=$(python3 tools/check.py $p --tier thorough 2>/dev/null | grep -E "VIOLATION|KNOWN|PASS|FAIL" | cut -c1-220)
  echo "$out" | sed "s/^/[$(( $(date +%s) - s ))s] /"
done; echo thorough-done
