#!/bin/bash
# regress_mutants.sh [ID...] : apply every stored mutant in turn, run the quick check of its property, report DETECTED / MISSED
cd /verif
ids="$@"; [ -z "$ids" ] && ids=$(ls seeded)
for id in $ids; do
  prop=$(python3 -c "import json;print(json.load(open('seeded/$id/meta.json'))['property'])")
  out=$(timeout 1500 tools/dev/try_mutant.sh /verif/seeded/$id/patch.diff $prop 2>/dev/null | grep -E "VIOLATION|PASS|FAIL|patch does not apply|dirty")
  if echo "$out" | grep -q "VIOLATION.*replay" ; then
    if echo "$out" | grep "VIOLATION" | grep -vq "no-failing-input-found"; then echo "$id ($prop): DETECTED with replay"; else echo "$id ($prop): detected (no-failing-input-found only)"; fi
  else echo "$id ($prop): MISSED  [$out]"; fi
done
