#!/bin/bash
# sandbox_regress.sh [ID...] : like regress_mutants.sh, but on private copies (/tmp/rg/verif, /tmp/rg/repo = a scratch worktree)
# so that /repo and /verif stay free for other work.  Removes the copies at the end.
set -u
ids="$@"; [ -z "$ids" ] && ids=$(ls /verif/seeded)
rm -rf /tmp/rg; mkdir -p /tmp/rg
git -C /repo worktree add --detach /tmp/rg/repo HEAD >/dev/null 2>&1 || { echo "cannot create worktree"; exit 2; }
rsync -a --exclude .build --exclude target --exclude replays --exclude .git /verif/ /tmp/rg/verif/
sed -i 's|path = "/repo"|path = "/tmp/rg/repo"|' /tmp/rg/verif/harness/Cargo.toml /tmp/rg/verif/harness_sd/Cargo.toml
[ -f /tmp/rg/verif/tools/gen_sysdata.py ] && sed -i 's|path = \\"/repo\\"|path = \\"/tmp/rg/repo\\"|' /tmp/rg/verif/tools/gen_sysdata.py
cd /tmp/rg/verif
export VERIF_REPO=/tmp/rg/repo
for id in $ids; do
  prop=$(python3 -c "import json;print(json.load(open('/verif/seeded/$id/meta.json'))['property'])")
  git -C /tmp/rg/repo apply /verif/seeded/$id/patch.diff || { echo "$id ($prop): patch does not apply"; continue; }
  out=$(timeout 1700 python3 tools/check.py $prop --tier quick 2>/dev/null | grep -E "VIOLATION|PASS|FAIL")
  git -C /tmp/rg/repo checkout -- .
  if echo "$out" | grep -q "VIOLATION.*replay" ; then
    if echo "$out" | grep "VIOLATION" | grep -vq "no-failing-input-found"; then echo "$id ($prop): DETECTED with replay"; else echo "$id ($prop): detected (no-failing-input-found only)"; fi
  else echo "$id ($prop): MISSED  [$out]"; fi
done
cd /; git -C /repo worktree remove --force /tmp/rg/repo; rm -rf /tmp/rg
echo sandbox-regress-done
