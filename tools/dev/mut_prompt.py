#!/usr/bin/env python3
"""print the prompt handed to a mutation sub-agent: property text + scratch worktree only"""
import json, sys
pid, wt = sys.argv[1], sys.argv[2]
p = [json.loads(l) for l in open('/verif/properties.jsonl') if json.loads(l)['id'] == pid][0]
print(f"""You are helping to test a verification effort by mutation. You work ONLY inside the git worktree {wt} (a scratch checkout of the Rust crate amethyst/shred, an ECS-style dispatcher). Do not read or touch /repo or /verif or any other directory; do not commit anything.

The crate is meant to satisfy this semantic property:

TITLE: {p['title']}
STATEMENT: {p['statement']}
QUANTIFIED OVER: {p['quantifier']['text']}
CODE ANCHORS: {', '.join(p['anchors']['files'])}

Task: produce ONE realistic change to the library source (src/ or shred-derive/src/ in {wt}) that BREAKS this property, while
 (a) the crate still compiles, and
 (b) the existing test suite still passes unchanged: run `cd {wt} && CARGO_NET_OFFLINE=true CARGO_TARGET_DIR={wt}/target cargo test --workspace --no-fail-fast --offline` (the sandbox has no network; everything needed is cached) — all tests must pass with your change (run it twice to make sure it is not flaky);
 (c) the breakage needs something specific to manifest — a particular interleaving, a multi-step sequence of operations, an unusual input (e.g. a particular combination of dependencies/barriers/hints/group sizes/nesting), or two cooperating sites that each look fine alone — NOT something ordinary use would expose at once. It should look like a plausible bug a maintainer could introduce (off-by-one, wrong branch order, a dropped clause, an optimisation that is wrong in a corner), not sabotage.

Also write a demonstration: a new integration test file {wt}/tests/mutant_demo.rs (using only the public API of shred; rayon is available as a dev-dependency if the crate already lists it, check Cargo.toml) that FAILS with your change and PASSES on the original code. Verify both: run the demo with your change (fails), then save the library change with `git -C {wt} diff -- src shred-derive > {wt}/change.patch`, revert it with `git -C {wt} apply -R {wt}/change.patch` (keep the demo) and run the demo on the original (passes), then restore your change with `git -C {wt} apply {wt}/change.patch`. Do NOT use git stash, git commit, git checkout of other revisions or any command that writes outside {wt} (the git metadata is shared with other people). Make the demo deterministic (use barriers/channels/condvars to force interleavings rather than sleeps where you can).

When done, leave the worktree with your change applied (uncommitted) plus the demo file, and write {wt}/MUTANT.md containing: the one-paragraph description of the change, exactly what is needed for it to manifest, and the commands you ran with their results. Reply with a short summary (files changed, what manifests it, demo result with/without the change). If after serious effort you cannot find a change that passes the existing tests and breaks the property, say so plainly.""")
