#!/bin/bash
# keep_mutantN.sh ROUND ID : confirm a round-N mutant in its worktree /tmp/mutN/ID and store it as seeded/ID-N
set -u
round=$1; id=$2; wt=/tmp/mut$round/$id
export CARGO_NET_OFFLINE=true CARGO_TARGET_DIR=$wt/target
cd $wt || exit 2
git diff -- src shred-derive > /tmp/mut$round/$id.patch
[ -s /tmp/mut$round/$id.patch ] || { echo "no change in worktree"; exit 2; }
cargo test --workspace --no-fail-fast --offline 2>&1 | grep -E "^test result|Running|FAILED|failed" > /tmp/mut$round/$id.with.log
with_demo_fail=$(grep -A2 "mutant_demo" /tmp/mut$round/$id.with.log | grep -c "FAILED")
others_fail=$(awk '/Running/{cur=$0} /test result: FAILED/{if (cur !~ /mutant_demo/) n++} END{print n+0}' /tmp/mut$round/$id.with.log)
git apply -R /tmp/mut$round/$id.patch
cargo test --offline --test mutant_demo 2>&1 | grep -E "^test result" > /tmp/mut$round/$id.without.log
without_ok=$(grep -c "test result: ok" /tmp/mut$round/$id.without.log)
git apply /tmp/mut$round/$id.patch
echo "with change: demo FAILED=$with_demo_fail other failing targets=$others_fail ; without change: demo ok=$without_ok"
if [ "$with_demo_fail" -ge 1 ] && [ "$others_fail" -eq 0 ] && [ "$without_ok" -ge 1 ]; then
  d=/verif/seeded/$id-$round; mkdir -p $d
  cp /tmp/mut$round/$id.patch $d/patch.diff
  cp $wt/tests/mutant_demo.rs $d/mutant_demo.rs
  [ -f $wt/MUTANT.md ] && cp $wt/MUTANT.md $d/MUTANT.md
  echo "kept $d"
else
  echo "NOT kept"; cat /tmp/mut$round/$id.with.log /tmp/mut$round/$id.without.log
fi
