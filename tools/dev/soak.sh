#!/bin/bash
# soak.sh FROM TO PROP... : run the quick checks with many seeds; skip/discard runs during which /repo was dirty (a mutant was applied)
from=$1; to=$2; shift 2
python3 tools/setup.py >/dev/null 2>&1
for s in $(seq $from $to); do for p in "$@"; do
  while ! git -C /repo diff --quiet; do sleep 3; done
  out=$(VERIF_SEED=$s python3 tools/check.py $p --tier quick 2>/dev/null | grep -E "VIOLATION|FAIL")
  if git -C /repo diff --quiet && [ -n "$out" ]; then echo "$out" | sed "s/^/seed=$s /"; cp replays/$p-*.json /tmp/soak-$p-$s.json 2>/dev/null; fi
done; done; echo soak-done
