"""Shared build / run helpers for setup.py and check.py."""
import fcntl
import glob
import hashlib
import json
import os
import re
import shutil
import subprocess
import sys
import time

VERIF = os.path.normpath(os.path.join(os.path.dirname(os.path.abspath(__file__)), ".."))
REPO = os.environ.get("VERIF_REPO", "/repo")
BUILD = os.path.join(VERIF, ".build")
COQ = os.path.join(VERIF, "coq")
OCAML_SRC = os.path.join(VERIF, "ocaml")
OCAML_BUILD = os.path.join(BUILD, "ocaml")
HARNESS = os.path.join(VERIF, "harness")
TARGET = os.path.join(BUILD, "target")
DRIVER = os.path.join(OCAML_BUILD, "driver")
NPROC = min(16, os.cpu_count() or 4)

ENV = dict(os.environ)
ENV.update({"CARGO_NET_OFFLINE": "true", "CARGO_TARGET_DIR": TARGET, "GOPROXY": "off", "PIP_NO_INDEX": "1"})

FORBIDDEN = re.compile(
    r"\b(Admitted|admit|Axiom|Axioms|Parameter|Parameters|Conjecture|Conjectures|Admit Obligations)\b"
    r"|Unset\s+Guard|bypass_check|type-in-type|impredicative-set|Unset\s+Positivity|Unset\s+Universe")


def log(*a):
    print(*a, file=sys.stderr, flush=True)


def run(cmd, cwd=None, timeout=1800, env=None, stdin=None):
    """returns (rc, stdout, stderr); rc = 124 on timeout"""
    try:
        p = subprocess.run(cmd, cwd=cwd, env=env or ENV, stdout=subprocess.PIPE, stderr=subprocess.PIPE,
                           timeout=timeout, text=True, input=stdin)
        return p.returncode, p.stdout, p.stderr
    except subprocess.TimeoutExpired as e:
        return 124, (e.stdout or b"").decode(errors="replace") if isinstance(e.stdout, bytes) else (e.stdout or ""), "timeout"


class Lock:
    def __init__(self, name="build"):
        os.makedirs(BUILD, exist_ok=True)
        self.path = os.path.join(BUILD, name + ".lock")

    def __enter__(self):
        self.f = open(self.path, "w")
        fcntl.flock(self.f, fcntl.LOCK_EX)
        return self

    def __exit__(self, *a):
        fcntl.flock(self.f, fcntl.LOCK_UN)
        self.f.close()


def repo_hash():
    h = hashlib.sha256()
    files = []
    for root in ("src", "shred-derive/src"):
        for dp, _dn, fn in os.walk(os.path.join(REPO, root)):
            for f in fn:
                files.append(os.path.join(dp, f))
    for f in ("Cargo.toml", "Cargo.lock", "shred-derive/Cargo.toml"):
        files.append(os.path.join(REPO, f))
    for f in sorted(files):
        try:
            with open(f, "rb") as fh:
                h.update(f.encode())
                h.update(fh.read())
        except OSError:
            pass
    return h.hexdigest()[:16]


def coq_sources():
    out = []
    for dp, _dn, fn in os.walk(COQ):
        if "extracted" in dp:
            continue
        for f in fn:
            if f.endswith(".v"):
                out.append(os.path.join(dp, f))
    return sorted(out)


def scan_forbidden():
    """grep the development for admitted proofs / declared axioms / disabled checks"""
    hits = []
    for f in coq_sources():
        with open(f) as fh:
            text = fh.read()
        # strip comments (non-nested approximation is enough: we never write these words in comments)
        text_nc = re.sub(r"\(\*.*?\*\)", "", text, flags=re.S)
        for m in FORBIDDEN.finditer(text_nc):
            hits.append(f"{os.path.relpath(f, VERIF)}: {m.group(0)}")
    return hits


def build_coq():
    """full .vo build of the development (no -vos). returns (ok, message)"""
    import extract_params
    extract_params.main()
    os.makedirs(os.path.join(COQ, "extracted"), exist_ok=True)
    mk = os.path.join(COQ, "Makefile")
    cp = os.path.join(COQ, "_CoqProject")
    if not os.path.exists(mk) or os.path.getmtime(mk) < os.path.getmtime(cp):
        rc, out, err = run(["coq_makefile", "-f", "_CoqProject", "-o", "Makefile"], cwd=COQ, timeout=120)
        if rc != 0:
            return False, "coq_makefile failed: " + err[-2000:]
    rc, out, err = run(["make", "-j", str(NPROC)], cwd=COQ, timeout=3000)
    if rc != 0:
        return False, (out[-3000:] + "\n" + err[-3000:])
    return True, "ok"


def build_driver():
    os.makedirs(OCAML_BUILD, exist_ok=True)
    srcs = [os.path.join(COQ, "extracted", "model.mli"), os.path.join(COQ, "extracted", "model.ml")]
    first = ["util.ml", "plan_suite.ml", "exec_suite.ml"]
    order = [f for f in first if os.path.exists(os.path.join(OCAML_SRC, f))] + \
        sorted(f for f in os.listdir(OCAML_SRC) if f.endswith("_suite.ml") and f not in first) + ["driver.ml"]
    srcs += [os.path.join(OCAML_SRC, f) for f in order]
    for s in srcs:
        if not os.path.exists(s):
            return False, "missing " + s
    newest = max(os.path.getmtime(s) for s in srcs)
    if os.path.exists(DRIVER) and os.path.getmtime(DRIVER) >= newest:
        return True, "up to date"
    for s in srcs:
        shutil.copy(s, OCAML_BUILD)
    names = [os.path.basename(s) for s in srcs]
    rc, out, err = run(["ocamlfind", "ocamlopt", "-package", "str", "-linkpkg", "-w", "-a"] + names + ["-o", "driver"],
                       cwd=OCAML_BUILD, timeout=600)
    if rc != 0:
        return False, (out + err)[-3000:]
    return True, "built"


def harness_bin(release=False, parallel=True):
    sub = "release" if release else "debug"
    tdir = TARGET if parallel else TARGET + "-nopar"
    return os.path.join(tdir, sub, "shred_verif")


def build_harness(release=False, parallel=True):
    """cargo build of the harness against /repo's current working tree (path dependency)"""
    lock_src = os.path.join(REPO, "Cargo.lock")
    lock_dst = os.path.join(HARNESS, "Cargo.lock")
    if not os.path.exists(lock_dst) and os.path.exists(lock_src):
        shutil.copy(lock_src, lock_dst)
    env = dict(ENV)
    cmd = ["cargo", "build", "--offline"]
    if release:
        cmd.append("--release")
    if not parallel:
        cmd += ["--no-default-features"]
        env["CARGO_TARGET_DIR"] = TARGET + "-nopar"
    rc, out, err = run(cmd, cwd=HARNESS, timeout=1800, env=env)
    if rc != 0:
        # keep only error lines
        lines = [l for l in err.splitlines() if not l.startswith("warning")]
        return False, "\n".join(lines)[-4000:]
    return True, "ok"


HARNESS_SD = os.path.join(VERIF, "harness_sd")
SD_BIN = os.path.join(TARGET, "debug", "shred_verif_sd")


def build_harness_sd():
    """the generated system-data crate (suite S4): regenerate gen.rs, cargo build against /repo"""
    import gen_sysdata
    gen_sysdata.main()
    lock_src = os.path.join(REPO, "Cargo.lock")
    lock_dst = os.path.join(HARNESS_SD, "Cargo.lock")
    if not os.path.exists(lock_dst) and os.path.exists(lock_src):
        shutil.copy(lock_src, lock_dst)
    rc, out, err = run(["cargo", "build", "--offline"], cwd=HARNESS_SD, timeout=1800)
    if rc != 0:
        lines = [l for l in err.splitlines() if not l.startswith("warning")]
        return False, "\n".join(lines)[-4000:]
    return True, "ok"


def build_all(release=False, nopar=False, sd=False):
    """returns dict of component -> (ok, message)"""
    res = {}
    with Lock("build"):
        t = time.time()
        res["coq"] = build_coq()
        res["driver"] = build_driver() if res["coq"][0] or os.path.exists(os.path.join(COQ, "extracted", "model.ml")) else (False, "no extracted model")
        res["harness"] = build_harness(False, True)
        if release and res["harness"][0]:
            res["harness-release"] = build_harness(True, True)
        if nopar and res["harness"][0]:
            res["harness-nopar"] = build_harness(False, False)
        if sd:
            res["harness-sd"] = build_harness_sd()
        res["time"] = time.time() - t
    return res


def write_json(path, obj):
    os.makedirs(os.path.dirname(path), exist_ok=True)
    tmp = path + ".tmp"
    with open(tmp, "w") as f:
        json.dump(obj, f, indent=1)
    os.replace(tmp, path)
