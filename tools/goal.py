#!/usr/bin/env python3
"""dev helper: goal.py FILE LINE — compile FILE up to LINE (inclusive) and show the goals there"""
import subprocess, sys, os
f, line = sys.argv[1], int(sys.argv[2])
src = open(f).read().split("\n")
tmp = "/tmp/goal_tmp.v"
open(tmp, "w").write("\n".join(src[:line]) + "\nShow.\n")
coq = os.path.join(os.path.dirname(os.path.abspath(__file__)), "..", "coq")
p = subprocess.run(["coqc", "-Q", coq, "Shred", tmp], stdout=subprocess.PIPE, stderr=subprocess.STDOUT, text=True, cwd=coq)
print(p.stdout[-int(sys.argv[3]) if len(sys.argv) > 3 else -3000:])
