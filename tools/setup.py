#!/usr/bin/env python3
"""setup: build the whole framework offline from files on disk (Coq development incl. the
extraction, OCaml driver, Rust harness against /repo with the hook feature)."""
import os
import sys
sys.path.insert(0, os.path.dirname(os.path.abspath(__file__)))
import common as C

def main():
    res = C.build_all(release=False, nopar=True, sd=True)
    ok = True
    for k in ("coq", "driver", "harness", "harness-nopar", "harness-sd"):
        good, msg = res[k]
        print("%-8s %s %s" % (k, "ok" if good else "FAILED", "" if good else msg[-3000:]))
        ok = ok and good
    print("setup wall %.1fs" % res["time"])
    return 0 if ok else 1

if __name__ == "__main__":
    sys.exit(main())
