#!/usr/bin/env python3
"""gen_sysdata.py — writes harness_sd/src/gen.rs: Rust instantiations of system-data type
expressions together with the matching `sd` expression of the model (SysData.v).

  * every tuple arity found in the source (SrcParams.tuple_arities, default 1..26), two tuples each;
  * every leaf kind at every position of arities 1,2,3,5,8,13,21,26;
  * nestings up to depth 3;
  * every ordered pair of accessor kinds on one resource (flat and nested);
  * derived named / tuple structs with 1..40 fields, extra lifetimes, type parameters, where-clauses.
Deterministic (fixed PRNG seed): the same file on every run for the same arity list."""
import os
import random
import re
import sys

sys.path.insert(0, os.path.dirname(os.path.abspath(__file__)))
VERIF = os.path.normpath(os.path.join(os.path.dirname(os.path.abspath(__file__)), ".."))
NRES = 6
LEAF_KINDS = ["Rd", "Rp", "Wd", "Wp", "r", "w", "U", "P", "Rc", "Wc"]


def leaf(kind, k, lt="'_"):
    """(rust type, sd text)"""
    if kind == "Rd": return ("Read<%s, D<%d>>" % (lt, k), "R%dd" % k)
    if kind == "Rp": return ("ReadExpect<%s, D<%d>>" % (lt, k), "R%dp" % k)
    if kind == "Wd": return ("Write<%s, D<%d>>" % (lt, k), "W%dd" % k)
    if kind == "Wp": return ("WriteExpect<%s, D<%d>>" % (lt, k), "W%dp" % k)
    if kind == "Rc": return ("Read<%s, D<%d>, Logging>" % (lt, k), "R%dc" % k)
    if kind == "Wc": return ("Write<%s, D<%d>, Logging>" % (lt, k), "W%dc" % k)
    if kind == "r": return ("Option<Read<%s, D<%d>>>" % (lt, k), "r%d" % k)
    if kind == "w": return ("Option<Write<%s, D<%d>>>" % (lt, k), "w%d" % k)
    if kind == "U": return ("()", "U")
    return ("PhantomData<u8>", "P")


def tup(members):
    return ("(" + "".join(m[0] + ", " for m in members) + ")", "T(" + ",".join(m[1] for m in members) + ")")


def rand_leaf(rnd, lt="'_", conflict_free=None):
    """conflict_free: dict used-> avoids a second exclusive / mixed use of a resource"""
    for _ in range(20):
        kind = rnd.choice(LEAF_KINDS)
        k = rnd.randrange(NRES)
        if conflict_free is not None and kind not in ("U", "P"):
            excl = kind in ("Wd", "Wp", "w", "Wc")
            prev = conflict_free.get(k)
            if prev == "x" or (prev == "s" and excl):
                continue
            conflict_free[k] = "x" if excl else "s"
        return leaf(kind, k, lt)
    return leaf("U", 0, lt)


def rand_nested(rnd, depth, lt="'_"):
    if depth == 0 or rnd.random() < 0.35:
        return rand_leaf(rnd, lt)
    n = rnd.randrange(1, 5)
    return tup([rand_nested(rnd, depth - 1, lt) for _ in range(n)])


def main():
    arities = list(range(1, 27))
    try:
        import re
        src = open(os.path.join(VERIF, "coq", "gen", "SrcParams.v")).read()
        m = re.search(r"tuple_arities : list nat := \[([0-9; ]*)\]", src)
        if m:
            arities = [int(x) for x in m.group(1).split(";") if x.strip()]
    except OSError:
        pass
    rnd = random.Random(20260926)
    cases = []     # (rust type, sd text)
    structs = []   # rust item definitions
    # (a) every arity: one conflict-free tuple, one arbitrary tuple
    for n in arities:
        used = {}
        cases.append(tup([rand_leaf(rnd, conflict_free=used) for _ in range(n)]))
        cases.append(tup([rand_leaf(rnd) for _ in range(n)]))
    # (b) every leaf kind at every position of selected arities
    for n in [a for a in (1, 2, 3, 5, 8, 13, 21, 26) if a in arities]:
        for pos in range(n):
            for kind in LEAF_KINDS:
                ms = []
                for i in range(n):
                    if i == pos:
                        ms.append(leaf(kind, (pos + len(kind)) % 5))
                    elif i == (pos + 1) % n and n > 1:
                        ms.append(leaf("Rd", 5))
                    else:
                        ms.append(leaf("U", 0))
                cases.append(tup(ms))
    # (c) nestings to depth 3
    for _ in range(70):
        cases.append(rand_nested(rnd, 3))
    # (c2) every ordered pair of accessor kinds on ONE resource (members that need the same resource twice:
    #      shared+shared is fine, anything with an exclusive member must panic), flat, with a spacer, and nested
    acc_kinds = [k for k in LEAF_KINDS if k not in ("U", "P")]
    for k1 in acc_kinds:
        for k2 in acc_kinds:
            cases.append(tup([leaf(k1, 0), leaf(k2, 0)]))
            cases.append(tup([leaf(k1, 1), leaf("U", 0), tup([leaf(k2, 1)])]))
    # (d) derived structs
    sid = 0
    for nf in [1, 2, 3, 4, 6, 9, 14, 20, 27, 33, 40]:
        for named in (True, False):
            sid += 1
            fields = [rand_leaf(rnd, "'a") for _ in range(nf)]
            name = "S%d" % sid
            if named:
                body = " { " + ", ".join("f%d: %s" % (i, f[0]) for i, f in enumerate(fields)) + " }"
                structs.append("#[derive(shred::SystemData)]\npub struct %s<'a>%s" % (name, body))
            else:
                body = "(" + ", ".join("pub " + f[0] for f in fields) + ");"
                structs.append("#[derive(shred::SystemData)]\npub struct %s<'a>%s" % (name, body))
            cases.append((name + "<'_>", "T(" + ",".join(f[1] for f in fields) + ")"))
    # extra lifetime, type parameter, where-clause
    structs.append("#[derive(shred::SystemData)]\npub struct G1<'a, 'b> { a: Read<'a, D<0>>, p: PhantomData<&'b ()>, w: Option<Write<'a, D<3>>> }")
    cases.append(("G1<'_, '_>", "T(R0d,P,w3)"))
    structs.append("#[derive(shred::SystemData)]\npub struct G2<'a, X: Resource + Default> { a: Read<'a, X>, b: Write<'a, D<1>> }")
    cases.append(("G2<'_, D<4>>", "T(R4d,W1d)"))
    # (a second instantiation of every generic derived struct: the generated impl must not share anything between them)
    cases.append(("G2<'_, D<5>>", "T(R5d,W1d)"))
    structs.append("#[derive(shred::SystemData)]\npub struct G3<'a, X> where X: Resource + Default + std::fmt::Debug { a: WriteExpect<'a, X>, b: (Read<'a, D<2>>, ()) }")
    cases.append(("G3<'_, D<5>>", "T(W5p,T(R2d,U))"))
    cases.append(("G3<'_, D<0>>", "T(W0p,T(R2d,U))"))
    structs.append("#[derive(shred::SystemData)]\npub struct G4<'a, 'b: 'a, X: Resource + Default>(pub Option<Read<'a, X>>, pub PhantomData<&'b X>, pub S1<'a>) where X: Send;")
    s1sd = [c for c in cases if c[0] == "S1<'_>"][0][1]
    cases.append(("G4<'_, '_, D<2>>", "T(r2,P,%s)" % s1sd))
    # members whose written type does not mention the fetch lifetime: a bare type parameter, a second lifetime
    structs.append("#[derive(shred::SystemData)]\npub struct G5<'a, X> where X: SystemData<'a> { head: Read<'a, D<0>>, tail: X }")
    cases.append(("G5<'_, Write<'_, D<1>>>", "T(R0d,W1d)"))
    cases.append(("G5<'_, (Option<Write<'_, D<2>>>, (Read<'_, D<3>>, ()),)>", "T(R0d,T(w2,T(R3d,U)))"))
    cases.append(("G5<'_, G5<'_, ReadExpect<'_, D<4>>>>", "T(R0d,T(R0d,R4p))"))
    structs.append("#[derive(shred::SystemData)]\npub struct G6<'a, X>(pub X, pub Write<'a, D<5>>, pub X) where X: SystemData<'a>;")
    cases.append(("G6<'_, Read<'_, D<2>>>", "T(R2d,W5d,R2d)"))
    cases.append(("G6<'_, Option<Read<'_, D<1>>>>", "T(r1,W5d,r1)"))
    structs.append("#[derive(shred::SystemData)]\npub struct G7<'a: 'b, 'b> { a: Read<'a, D<0>>, b: Write<'b, D<1>>, c: Option<Write<'b, D<2>>> }")
    cases.append(("G7<'_, '_>", "T(R0d,W1d,w2)"))
    # fields of TUPLE type mixing read and write members (flat and nested)
    structs.append("#[derive(shred::SystemData)]\npub struct G8<'a> { pair: (Read<'a, D<0>>, Write<'a, D<1>>), tail: Option<Read<'a, D<2>>> }")
    cases.append(("G8<'_>", "T(T(R0d,W1d),r2)"))
    structs.append("#[derive(shred::SystemData)]\npub struct G9<'a>(pub (Write<'a, D<3>>, (Read<'a, D<4>>, ())), pub Read<'a, D<5>>, pub (Option<Write<'a, D<0>>>, ReadExpect<'a, D<1>>));")
    cases.append(("G9<'_>", "T(T(W3d,T(R4d,U)),R5d,T(w0,R1p))"))
    # nested derived inside tuples
    cases.append(("(S3<'_>, Read<'_, D<5>>, (S2<'_>,),)", "T(%s,R5d,T(%s))" % ([c for c in cases if c[0] == "S3<'_>"][0][1], [c for c in cases if c[0] == "S2<'_>"][0][1])))

    out = ["// GENERATED by tools/gen_sysdata.py — do not edit.",
           "use crate::*;", ""]
    out += structs
    out.append("")
    for i, (ty, sdt) in enumerate(cases):
        out.append("fn case_%d(mask: u32) -> String { obs!(mask, %s) }" % (i, ty))
    out.append("")
    out.append("pub static CASES: &[(&str, fn(u32) -> String, u32)] = &[")
    for i, (ty, sdt) in enumerate(cases):
        need = 0
        for m in re.finditer(r"[RWrw]([0-9])", sdt):
            need |= 1 << int(m.group(1))
        out.append('    ("%s", case_%d, %d),' % (sdt, i, need))
    out.append("];")
    path = os.path.join(VERIF, "harness_sd", "src", "gen.rs")
    text = "\n".join(out) + "\n"
    old = open(path).read() if os.path.exists(path) else None
    if old != text:
        with open(path, "w") as f:
            f.write(text)
    print("gen_sysdata: %d cases, %d derived structs" % (len(cases), len(structs)), file=sys.stderr)
    return len(cases)


if __name__ == "__main__":
    main()
