#!/usr/bin/env python3
"""check.py Cxx --tier quick|thorough [--replay FILE]

One check run (DESIGN.md §2.1):
  1. rebuild from /repo's working tree (harness = path dependency on /repo, hooks on),
     regenerate SrcParams.v, rebuild the Coq development (full .vo build) and the driver;
  2. re-check the property's theorems (coqc props/Cxx.v, Print Assumptions, forbidden-word scan);
  3. run the correspondence suites the property depends on (real crate vs extracted model);
  4. evaluate the property oracles on every real observation;
  5. verdict, evidence/Cxx.json, replay file.
"""
import argparse
import json
import os
import re
import sys
import time

sys.path.insert(0, os.path.dirname(os.path.abspath(__file__)))
import common as C
import suites

# ----------------------------------------------------------------------------------------
# what each property depends on:  suite -> (correspondence fields, oracles)
# A disagreement in a listed field breaks the tie for the property; an oracle listed here that
# is false on a REAL observation is a violation with that observation as the replay.

LAYOUT = ["shape", "order", "level-missing", "level-extra", "driver-exception"]
XLAYOUT = ["shape", "order", "tlorder", "level-plan", "level-missing", "accept", "naccept", "faccept", "builderr", "driver-exception"]
PROPS = {
    "C01": dict(suites={"plan": dict(fields=LAYOUT, oracles=["isolated", "exec_perm"]),
                        "exec": dict(fields=XLAYOUT, oracles=["no_overlap", "borrow_panic"], kf1=True),
                        "async": dict(fields=["async_accept", "builderr", "level-plan", "driver-exception"], oracles=["borrow_panic", "async_once", "operation_panicked"])}),
    "C02": dict(suites={"plan": dict(fields=LAYOUT, oracles=["deps_ordered"]),
                        "exec": dict(fields=XLAYOUT, oracles=["preds_done"]),
                        "async": dict(fields=["async_accept", "builderr", "level-plan", "driver-exception"], oracles=["borrow_panic", "async_once", "operation_panicked"])}),
    "C03": dict(suites={"plan": dict(fields=LAYOUT + ["tl", "tlorder"], oracles=["barriers", "tl_order"]),
                        "exec": dict(fields=XLAYOUT, oracles=["preds_done", "tl_last"])}),
    "C04": dict(suites={"plan": dict(fields=LAYOUT + ["tl"], oracles=["exec_perm", "exec_perm(shape-sum)", "par_once"]),
                        "exec": dict(fields=XLAYOUT, oracles=["once", "run_counts"]),
                        "async": dict(fields=["async_accept", "builderr", "level-plan", "driver-exception"], oracles=["borrow_panic", "async_once", "operation_panicked"])}),
    "C05": dict(nopar=True, suites={"exec": dict(nopar=True, fields=XLAYOUT, oracles=["par_eq_seq(world)", "par_eq_seq(states)", "unexpected_panic"])}),
    "C07": dict(suites={"plan": dict(fields=LAYOUT, oracles=["isolated"]),
                        "exec": dict(fields=XLAYOUT, oracles=["no_overlap", "inside", "borrow_panic", "par_eq_seq(world)", "par_eq_seq(states)",
                                                              "once", "preds_done", "unexpected_panic"], kf1=True)}),
    "C06": dict(sd=True, suites={"sysdata": dict(fields=["reads", "writes", "fetch", "alive", "after", "setup", "setupok", "setup-calls", "exec", "driver-exception"],
                                                 oracles=["declared_equals_borrowed", "conflicting_members_fetched", "released_after_drop", "setup_keeps_existing",
                                                          "setup_default_value", "setup_idempotent", "setup_composes", "exec_releases", "exec_panic_propagates", "exec_runs_setup"])}),
    "C08": dict(sd=True, suites={"world": dict(fields=["outcome", "probe", "ledger", "end", "driver-exception"],
                                      oracles=["fail_preserves", "none_iff_absent", "borrow_class"]),
                        "meta": dict(fields=["outcome", "driver-exception"], oracles=["iter_borrow_discipline"]),
                        "sysdata": dict(fields=["fetch", "alive", "after", "driver-exception"],
                                        oracles=["conflicting_members_fetched", "released_after_drop", "declared_equals_borrowed"])}),
    "C09": dict(sd=True, suites={"sysdata": dict(fields=["exec", "setup", "setupok", "driver-exception"], oracles=["exec_runs_setup", "exec_releases", "exec_panic_propagates", "setup_keeps_existing"]),
                        "world": dict(fields=["outcome", "probe", "ledger", "end", "driver-exception"],
                                      oracles=["mismatch_panics", "drop_once", "fail_preserves", "other_slots_untouched", "insert_replaces",
                                               "remove_empties", "entry_never_overwrites", "entry_inserts", "presence_agrees", "get_mut_identity"])}),
    "C10": dict(suites={"plan": dict(fields=LAYOUT + ["maxthr"], oracles=["skip_justified", "max_threads"])}),
    "C11": dict(suites={"pool": dict(fields=["pool-model", "builderr", "driver-exception"], oracles=["stage_serialised"]),
                        "cells": dict(fields=["pools", "driver-exception"], oracles=["batch_on_another_pool", "attached_pool_not_used", "hang"])}),
    "C12": dict(suites={"plan": dict(fields=["tl", "tlorder", "sendable", "driver-exception"], oracles=["tl_order", "sendable", "sendable_preserves_plan"]),
                        "exec": dict(fields=XLAYOUT, oracles=["tl_on_caller", "inner_tl_on_caller", "tl_last"], kf1=True),
                        "async": dict(fields=["async_accept", "builderr", "level-plan", "driver-exception"],
                                      oracles=["thread_local_outside_wait", "thread_local_off_the_calling_thread",
                                               "thread_local_while_a_system_is_running", "wait_runs_thread_locals_in_order"])}),
    "C13": dict(sd=True, suites={"exec": dict(fields=["builderr", "driver-exception", "setup_order", "dispose_order"], oracles=["setup_visits", "setup_keeps", "setup_recreates", "dispose_visits"]),
                                 "sysdata": dict(fields=["setup", "setupok", "setup-calls", "driver-exception"],
                                                 oracles=["setup_keeps_existing", "setup_default_value", "setup_idempotent", "setup_composes"]),
                                 "async": dict(fields=["setup_order", "builderr", "level-plan", "driver-exception"], oracles=["setup_visits"])}),
    "C14": dict(suites={"exec": dict(fields=XLAYOUT, oracles=["panic_payload", "panic_dependents", "panic_twice", "next_dispatch", "probe_free",
                                                              "unexpected_panic"]),
                        "async": dict(fields=["builderr", "level-plan", "driver-exception"], oracles=["tl_panic_contained", "next_dispatch"])}),
    "C15": dict(suites={"async": dict(fields=["async_accept", "builderr", "level-plan", "driver-exception"],
                                      oracles=["running_false_while_a_system_is_inside_run", "accessor_returned_while_a_system_is_running",
                                               "accessor_returned_before_all_finished", "thread_local_outside_wait",
                                               "thread_local_off_the_calling_thread", "thread_local_while_a_system_is_running",
                                               "operation_panicked", "async_once", "borrow_panic", "wait_runs_thread_locals_in_order",
                                               "tl_panic_contained", "next_dispatch", "setup_visits"]),
                        # the async configurations of S8 (completion must not depend on who collects first: asyncpair, asyncdouble, ...)
                        "pool": dict(fields=["pool-model", "builderr", "driver-exception"], oracles=["stage_serialised"])}),
    "C16": dict(suites={"parseq": dict(fields=["build", "reads", "writes", "setup", "accept", "driver-exception"],
                                       oracles=["conflict_accepted", "compatible_rejected", "setup_reaches_every_leaf", "unexpected_panic", "access_union",
                                                "once", "seq_order", "run_counts"])}),
    "C17": dict(suites={"meta": dict(fields=["outcome", "driver-exception"],
                                     oracles=["get_iff_registered", "own_vtable", "same_address", "bad_cast_only", "iter_borrow_discipline",
                                              "iter_registered_present_in_first_registration_order", "iter_own_vtable", "iter_protocol", "iter_first_item"])}),
    "C18": dict(suites={"plan": dict(fields=["calls", "err", "errs", "driver-exception"], oracles=["errors_exact", "status:setup-panic", "status:run-panic"],
                                     gens=["malformed"])}),
    "C19": dict(nopar=True, suites={"plan": dict(meta=True, fields=LAYOUT + ["tl", "tlorder", "maxthr"], oracles=["meta_same_plan"])}),
    "C20": dict(suites={"plan": dict(fields=["print", "driver-exception"], oracles=["print_total", "print_matches"])}),
}
# a case of a thread-driving suite that does not come back within the harness watchdog's budget (a dispatch that never
# returns) is a failing input of every property that suite serves
for _p in PROPS.values():
    for _sn, _ss in _p["suites"].items():
        if _sn in ("exec", "async", "parseq", "sysdata") and "hang" not in _ss["oracles"]:
            _ss["oracles"] = list(_ss["oracles"]) + ["hang"]

# the crate is also built WITHOUT the `parallel` feature for every property served by the plan or exec suite
for _p in PROPS.values():
    for _sn, _ss in _p["suites"].items():
        if _sn in ("plan", "exec") and not _ss.get("meta"):
            _ss["nopar"] = True
            _p["nopar"] = True

TRUSTED_BASE = [
    "Coq 8.16.1 kernel (coqc; coqchk in the thorough tier); vm_compute in Examples and params_ok; no native_compute",
    "extraction (ExtrOcamlBasic only, no Extract Constant) + OCaml 4.13.1 + ocaml/*.ml driver (parsing, comparison)",
    "Rust harness /verif/harness (generators, logging, canonicalisation) and tools/check.py, tools/suites.py",
    "tools/extract_params.py (regenerates coq/gen/SrcParams.v from /repo)",
    "hand-written models coq/*.v: tied to /repo only by the correspondence suites of this run",
]


def load_known():
    p = os.path.join(C.VERIF, "known_findings.json")
    if not os.path.exists(p):
        return []
    with open(p) as f:
        return json.load(f)


def check_proofs(pid, tier):
    """returns dict(obligations, discharged, axioms, problems)"""
    res = dict(obligations=0, discharged=0, axioms=[], problems=[], theorems=[])
    path = os.path.join(C.COQ, "props", pid + ".v")
    if not os.path.exists(path):
        res["problems"].append("no theorem file props/%s.v" % pid)
        return res
    with open(path) as f:
        src = f.read()
    thms = re.findall(r"^\s*(?:Theorem|Corollary)\s+(\w+)", src, re.M)
    res["theorems"] = thms
    res["obligations"] = len(thms)
    out_vo = os.path.join(C.BUILD, "props", pid + ".vo")
    os.makedirs(os.path.dirname(out_vo), exist_ok=True)
    rc, out, err = C.run(["coqc", "-q", "-Q", ".", "Shred", "props/%s.v" % pid, "-o", out_vo], cwd=C.COQ, timeout=900)
    if rc != 0:
        res["problems"].append("coqc props/%s.v failed: %s" % (pid, (out + err)[-1500:]))
        return res
    # Print Assumptions output: one block per theorem
    closed = len(re.findall(r"Closed under the global context", out))
    axioms = re.findall(r"^([A-Za-z_][\w.']*)\s*:", out, re.M) if "Axioms:" in out else []
    allow = set()
    allow_file = os.path.join(C.COQ, "props", "AXIOMS_ALLOWED.txt")
    if os.path.exists(allow_file):
        allow = set(l.strip() for l in open(allow_file) if l.strip() and not l.startswith("#"))
    bad = [a for a in axioms if a not in allow]
    res["axioms"] = sorted(set(axioms))
    n_pa = len(re.findall(r"^\s*Print Assumptions", src, re.M))
    if n_pa < len(thms):
        res["problems"].append("Print Assumptions missing for some theorem in props/%s.v" % pid)
    if bad:
        res["problems"].append("theorem depends on axioms outside the allow-list: %s" % bad)
    if "Axioms:" not in out and closed < len(thms):
        res["problems"].append("expected %d closed theorems, saw %d" % (len(thms), closed))
    hits = C.scan_forbidden()
    if hits:
        res["problems"].append("forbidden declarations in the development: %s" % hits[:5])
    if not res["problems"]:
        res["discharged"] = len(thms)
    if tier == "thorough" and not res["problems"]:
        rc, out, err = C.run(["coqchk", "-silent", "-o", "-Q", ".", "Shred", "Shred.props." + pid], cwd=C.COQ, timeout=1800)
        res["coqchk"] = "ok" if rc == 0 else "FAILED: " + (out + err)[-800:]
        if rc != 0:
            res["problems"].append("coqchk failed")
            res["discharged"] = 0
    return res


def main():
    ap = argparse.ArgumentParser()
    ap.add_argument("prop")
    ap.add_argument("--tier", default=os.environ.get("VERIF_TIER", "quick"))
    ap.add_argument("--replay", default=None)
    args = ap.parse_args()
    pid = args.prop
    tier = args.tier if args.tier in ("quick", "thorough") else "quick"
    seed = int(os.environ.get("VERIF_SEED", "1") or "1")
    t0 = time.time()
    if pid not in PROPS:
        print("unknown property", pid)
        return 2
    spec = PROPS[pid]
    known = [k for k in load_known() if pid in k.get("properties", [])]
    os.makedirs(os.path.join(C.VERIF, "replays"), exist_ok=True)

    # 1. build
    need_release = tier == "thorough" and spec.get("release", False)
    need_nopar = spec.get("nopar", False)
    b = C.build_all(release=need_release, nopar=need_nopar, sd=spec.get("sd", False))
    broken = []        # (what, detail) : obligations / correspondences that no longer check
    if not b["coq"][0]:
        broken.append(("coq-build", b["coq"][1]))
    if not b["driver"][0]:
        broken.append(("driver-build", b["driver"][1]))
    harness_ok = b["harness"][0]
    if not harness_ok:
        broken.append(("harness-build", b["harness"][1]))
    if "harness-sd" in b and not b["harness-sd"][0]:
        # e.g. a tuple arity or a derive form that no longer compiles: the type expression is the replay
        harness_ok = False
        broken.append(("harness-sd-build", b["harness-sd"][1]))

    # 2. proofs
    proofs = check_proofs(pid, tier) if b["coq"][0] else dict(obligations=1, discharged=0, axioms=[], problems=["coq build failed"], theorems=[])
    for p in proofs["problems"]:
        broken.append(("proof", p))

    # 3+4. suites
    violations = []     # (oracle, level, case, suite)
    disagreements = []  # (field, level, model, real, case, suite)
    known_disagreements = []
    suite_stats = {}
    if harness_ok and b["driver"][0]:
        for sname, sspec in spec["suites"].items():
            runner = suites.SUITES[sname]
            if args.replay:
                r = runner.replay(args.replay)
            else:
                r = runner.run(tier, seed, sspec)
            suite_stats[sname] = r.stats
            for (o, lvl, case) in r.oracle_failures:
                if o in sspec["oracles"] or o.split(":")[0] in sspec["oracles"]:
                    violations.append((o, lvl, case, sname))
            for (f, lvl, m, rl, case) in r.disagreements:
                if f in sspec["fields"] or f.split(":")[0] in sspec["fields"]:
                    kf = suites.match_known(known, sname, case, f, lvl)
                    if kf is not None:
                        # the run of a program of a listed known-finding class (e.g. KF1: the real dispatch may end in a
                        # borrow panic): its trace is not expected to lie in the model's trace set
                        known_disagreements.append((kf["id"], f, case))
                        continue
                    disagreements.append((f, lvl, m, rl, case, sname))
            if r.error:
                broken.append(("suite-" + sname, r.error))

    # 5. verdict
    rc = 0
    out_lines = []
    n_viol = 0
    reported_known = set()
    for (kid, f, case) in known_disagreements:
        if kid not in reported_known:
            reported_known.add(kid)
            kf = [k for k in known if k.get("id") == kid][0]
            out_lines.append("KNOWN-FINDING: property=%s %s: %s" % (pid, kid, kf["what"]))
    if violations:
        # group by oracle; shrink the first of each; classify against known findings
        seen = set()
        for (o, lvl, case, sname) in violations:
            kf = suites.match_known(known, sname, case, o, lvl)
            if kf is not None:
                if kf["id"] not in reported_known:
                    reported_known.add(kf["id"])
                    out_lines.append("KNOWN-FINDING: property=%s %s: %s" % (pid, kf["id"], kf["what"]))
                continue
            if o in seen:
                continue
            seen.add(o)
            runner = suites.SUITES[sname]
            # (a case that hangs is not shrunk: every attempt costs the whole watchdog budget)
            small = runner.shrink(case, o) if not args.replay and o != "hang" else case
            n_viol += 1
            path = os.path.join(C.VERIF, "replays", "%s-%s-%d.json" % (pid, re.sub(r"\W+", "_", o), n_viol))
            C.write_json(path, dict(property=pid, suite=sname, seed=seed, failing_clause=o, level=lvl,
                                    case=small, shrunk_from=case if small != case else None,
                                    real="hang" if o == "hang" else runner.observe(small), how="python3 tools/check.py %s --replay %s" % (pid, path)))
            out_lines.append("VIOLATION property=%s replay=%s" % (pid, path))
            rc = 1
    if rc == 0 and (broken or disagreements):
        # the property is no longer shown to hold: directed search for a failing input
        found = None
        if harness_ok and b["driver"][0] and not args.replay:
            for sname, sspec in spec["suites"].items():
                runner = suites.SUITES[sname]
                r = runner.run("search", seed + 7919, sspec, focus=[d[4] for d in disagreements[:50]])
                for (o, lvl, case) in r.oracle_failures:
                    if (o in sspec["oracles"] or o.split(":")[0] in sspec["oracles"]) and suites.match_known(known, sname, case, o, lvl) is None:
                        found = (o, lvl, case, sname)
                        break
                if found:
                    break
        n_viol += 1
        if found:
            o, lvl, case, sname = found
            runner = suites.SUITES[sname]
            small = runner.shrink(case, o) if o != "hang" else case
            path = os.path.join(C.VERIF, "replays", "%s-%s-search.json" % (pid, re.sub(r"\W+", "_", o)))
            C.write_json(path, dict(property=pid, suite=sname, seed=seed, failing_clause=o, level=lvl, case=small,
                                    shrunk_from=case, real="hang" if o == "hang" else runner.observe(small), found_by="directed search after a broken obligation/correspondence",
                                    broken=[w for (w, _d) in broken] + [d[0] for d in disagreements[:5]]))
            out_lines.append("VIOLATION property=%s replay=%s" % (pid, path))
        else:
            path = os.path.join(C.VERIF, "replays", "%s-unproved.json" % pid)
            C.write_json(path, dict(
                property=pid, seed=seed,
                broken_obligations=[dict(what=w, detail=d[-3000:]) for (w, d) in broken],
                broken_correspondence=[dict(suite=d[5], field=d[0], level=d[1], model=d[2][:2000], real=d[3][:2000], case=d[4])
                                       for d in disagreements[:20]],
                theorems=proofs.get("theorems", []),
                note="no failing input found by the directed search; the property is no longer shown to hold"))
            out_lines.append("VIOLATION property=%s replay=%s no-failing-input-found" % (pid, path))
        rc = 1

    # evidence
    evals = sum(s.get("cases", 0) for s in suite_stats.values())
    dn = sum(s.get("distinct_nontrivial", 0) for s in suite_stats.values())
    samples = []
    for s in suite_stats.values():
        samples += s.get("samples", [])[:3]
    if not samples:
        samples = ["(no suite ran)"]
    n_suites = len(spec["suites"])
    obligations = proofs["obligations"] + n_suites + 1      # theorems + one per correspondence suite + params/forbidden scan
    suites_ok = n_suites if not disagreements and not any(w.startswith("suite") or w.endswith("-build") for (w, _d) in broken) else 0
    discharged = proofs["discharged"] + suites_ok + (1 if not any(w == "proof" for (w, _d) in broken) else 0)
    ev = dict(
        property_id=pid, tier=tier, seed=seed, level="proof",
        coverage=dict(
            obligations=obligations, discharged=discharged if rc == 0 else min(discharged, obligations - 1),
            checker_cmd="make -C coq (full .vo build) && coqc -Q . Shred props/%s.v (Print Assumptions parsed)%s; then %s"
                        % (pid, " && coqchk -o" if tier == "thorough" else "",
                           ", ".join("suite %s" % s for s in spec["suites"])),
            trusted_base=TRUSTED_BASE,
            theorems=proofs.get("theorems", []), axioms=proofs.get("axioms", []),
            evaluations=evals, distinct_nontrivial=dn,
            rule="cases = generated inputs executed on the real crate AND on the extracted model; distinct = distinct canonical case text "
                 "(md5); non-trivial per suite rule (plan: a group of >=2 systems, >=2 stages, a batch, a dependency or a rejected call; "
                 "exec: >= 2 systems; world: a history of >= 2 operations)",
            samples=samples, suites=suite_stats,
            disagreements=len(disagreements), oracle_failures=len(violations),
            known_findings_reported=sorted(reported_known),
            explanation="proof-level claim: theorems in coq/props/%s.v quantify over all inputs of the model; the suites tie the model to /repo" % pid),
        assumptions=TRUSTED_BASE, wall_s=round(time.time() - t0, 2), violations=n_viol)
    C.write_json(os.path.join(C.VERIF, "evidence", pid + ".json"), ev)
    for l in out_lines:
        print(l)
    print("%s %s tier=%s cases=%d distinct_nontrivial=%d theorems=%d/%d disagreements=%d wall=%.1fs"
          % ("FAIL" if rc else "PASS", pid, tier, evals, dn, proofs["discharged"], proofs["obligations"], len(disagreements), time.time() - t0))
    return rc


if __name__ == "__main__":
    sys.exit(main())
