"""Correspondence suites: run the real crate (Rust harness) and the extracted model (OCaml
driver) on the same generated cases, collect disagreements and oracle failures."""
import glob
import json
import os
import shutil
import subprocess
import tempfile

import common as C


class Result:
    def __init__(self):
        self.stats = dict(cases=0, distinct_nontrivial=0, hist={}, samples=[], generators=[])
        self.disagreements = []     # (field, level, model, real, case)
        self.oracle_failures = []   # (oracle, level, case)
        self.error = None


def _merge_hist(a, b):
    for k, v in b.items():
        a[k] = a.get(k, 0) + v


class PipeSuite:
    """generic: `harness <name> <gen args> | driver <name>-check`, sharded"""
    name = "?"
    TIMEOUT = 1500

    def harness(self, release=False, parallel=True):
        return C.harness_bin(release, parallel)

    def gens(self, tier, sspec):
        raise NotImplementedError

    def cmd_prefix(self):
        return [self.name]

    def corpus_files(self, sspec=None):
        fs = sorted(glob.glob(os.path.join(C.VERIF, "corpus", self.name + "-*.txt")))
        # witnesses of a known finding are replayed only by the checks of the properties it is listed for
        if not (sspec or {}).get("kf1"):
            fs = [f for f in fs if not os.path.basename(f).startswith(self.name + "-kf")]
        return fs

    def _parse(self, text, res, hashes):
        for line in text.splitlines():
            if line.startswith("D "):
                head, _, case = line.partition("\t")
                parts = head.split(" ", 3)
                field = parts[1]
                level = parts[2] if len(parts) > 2 else "L0"
                rest = parts[3] if len(parts) > 3 else ""
                m, _, r = rest.partition(" real=")
                res.disagreements.append((field, level, m.replace("model=", "", 1), r, case))
            elif line.startswith("O "):
                head, _, case = line.partition("\t")
                parts = head.split(" ")
                res.oracle_failures.append((parts[1], parts[2] if len(parts) > 2 else "L0", case))
            elif line.startswith("SUMMARY "):
                s = json.loads(line[8:])
                res.stats["cases"] += s.get("cases", 0)
                _merge_hist(res.stats["hist"], s.get("hist", {}))
                if len(res.stats["samples"]) < 6:
                    res.stats["samples"] += s.get("samples", [])[:2]
            elif line.startswith("H "):
                hashes.add(line[2:])

    def run(self, tier, seed, sspec, focus=None):
        res = Result()
        hashes = set()
        work = tempfile.mkdtemp(prefix="run-%s-" % self.name, dir=C.BUILD)
        try:
            procs = []
            jobs = []
            for cf in self.corpus_files(sspec):
                jobs.append(("corpus:" + os.path.basename(cf), [self.harness()] + self.cmd_prefix() + ["--cases", cf], {}))
            for (label, hargs, opts) in self.gens(tier, seed, sspec):
                nshard = opts.get("shards", C.NPROC)
                for i in range(nshard):
                    h = self.harness(opts.get("release", False), opts.get("parallel", True))
                    jobs.append((label, [h] + self.cmd_prefix() + hargs + ["--shard", "%d/%d" % (i, nshard)], opts))
                res.stats["generators"].append(label)
            # run at most NPROC pipelines at a time
            pending = list(enumerate(jobs))
            running = []
            outputs = []

            def start(idx, job):
                label, cmd, opts = job
                outp = os.path.join(work, "out-%d.txt" % idx)
                errp = os.path.join(work, "err-%d.txt" % idx)
                # stderr goes to a file: a pipe that nobody drains blocks the harness once 64 KiB of panic messages are written
                sh = "( " + " ".join(_q(c) for c in cmd) + " | " + _q(C.DRIVER) + " " + self.name + "-check > " + _q(outp) + " ) 2> " + _q(errp)
                env = dict(C.ENV)
                env["VERIF_HASHES"] = "1"
                p = subprocess.Popen(["bash", "-o", "pipefail", "-c", sh], env=env)
                return (p, outp, label, errp)

            import time as _t
            t0 = _t.time()
            while pending or running:
                while pending and len(running) < C.NPROC:
                    idx, job = pending.pop(0)
                    running.append(start(idx, job))
                still = []
                for (p, outp, label, errp) in running:
                    rc = p.poll()
                    if rc is None:
                        if _t.time() - t0 > self.TIMEOUT:
                            p.kill()
                            res.error = "suite %s timed out (%s)" % (self.name, label)
                        else:
                            still.append((p, outp, label, errp))
                    else:
                        err = ""
                        if rc != 0:
                            try:
                                with open(errp, "rb") as f:
                                    f.seek(0, 2)
                                    f.seek(max(0, f.tell() - 2000))
                                    err = f.read().decode(errors="replace")
                            except OSError:
                                pass
                        if rc != 0 and not res.error:
                            res.error = "pipeline %s exited %d: %s" % (label, rc, err[-600:])
                        outputs.append(outp)
                running = still
                if running:
                    _t.sleep(0.02)
            for outp in outputs:
                try:
                    with open(outp) as f:
                        self._parse(f.read(), res, hashes)
                except OSError:
                    pass
            res.stats["distinct_nontrivial"] = len(hashes)
            if res.stats["cases"] == 0 and not res.error:
                res.error = "suite %s produced no cases" % self.name
        finally:
            shutil.rmtree(work, ignore_errors=True)
        return res

    def run_cases(self, lines, opts=None):
        """run given case lines; returns Result"""
        res = Result()
        hashes = set()
        opts = opts or {}
        with tempfile.NamedTemporaryFile("w", suffix=".txt", dir=C.BUILD, delete=False) as f:
            for l in lines:
                for part in l.split("\t")[0].split(" ||| "):      # a metamorphic pair is two case lines
                    f.write(part + "\n")
            path = f.name
        try:
            h = self.harness(opts.get("release", False), opts.get("parallel", True))
            sh = " ".join(_q(x) for x in [h] + self.cmd_prefix()) + " --cases " + _q(path) + " | " + _q(C.DRIVER) + " " + self.name + "-check"
            p = subprocess.run(["bash", "-o", "pipefail", "-c", sh], env=C.ENV, stdout=subprocess.PIPE, stderr=subprocess.PIPE,
                               text=True, timeout=600)
            if p.returncode != 0:
                res.error = "replay pipeline failed: " + p.stderr[-500:]
            self._parse(p.stdout, res, hashes)
            res.stats["distinct_nontrivial"] = len(hashes)
        finally:
            os.unlink(path)
        return res

    def observe(self, case):
        """the real observation of one case (for replay files)"""
        with tempfile.NamedTemporaryFile("w", suffix=".txt", dir=C.BUILD, delete=False) as f:
            for part in case.split("\t")[0].split(" ||| "):
                f.write(part + "\n")
            path = f.name
        try:
            p = subprocess.run([self.harness()] + self.cmd_prefix() + ["--cases", path], env=C.ENV, stdout=subprocess.PIPE,
                               stderr=subprocess.PIPE, text=True, timeout=300)
            lines = [l.partition("\t")[2] for l in p.stdout.strip().split("\n")] if p.stdout.strip() else [""]
            return " ||| ".join(lines)
        except Exception as e:      # noqa
            return "observe failed: %s" % e
        finally:
            os.unlink(path)

    def replay(self, path):
        with open(path) as f:
            j = json.load(f)
        cases = []
        if "case" in j:
            cases.append(j["case"])
        for d in j.get("broken_correspondence", []):
            cases.append(d["case"])
        return self.run_cases(cases)

    def still_fails(self, case, oracle):
        r = self.run_cases([case])
        return any(o == oracle for (o, _l, _c) in r.oracle_failures)

    def shrink(self, case, oracle):
        return case


def _q(s):
    return "'" + s.replace("'", "'\\''") + "'"


# ----------------------------------------------------------------------------------------
# S1 plan

def parse_prog(toks):
    """token list -> nested list of items; item = ('S'|'T'|'|', tokens) or ('B', head tokens, inner items)"""
    out = []
    while toks:
        t = toks.pop(0)
        if t == "}":
            return out
        if t == "|":
            out.append(("|", ["|"]))
        elif t == "T":
            out.append(("T", ["T"] + [toks.pop(0) for _ in range(3)]))
        elif t == "S":
            out.append(("S", ["S"] + [toks.pop(0) for _ in range(7)]))
        elif t == "B":
            head = ["B"] + [toks.pop(0) for _ in range(8)]
            assert toks.pop(0) == "{"
            inner = parse_prog(toks)
            out.append(("B", head, inner))
        else:
            raise ValueError("token " + t)
    return out


def print_prog(items):
    parts = []
    for it in items:
        if it[0] == "B":
            parts.append(" ".join(it[1]) + " { " + print_prog(it[2]) + " }")
        else:
            parts.append(" ".join(it[1]))
    return " ".join(p for p in parts if p)


def _variants(items):
    """candidate reductions, big steps first"""
    n = len(items)
    size = n // 2
    while size >= 1:
        for start in range(0, n, size):
            yield items[:start] + items[start + size:]
        size //= 2
    for i, it in enumerate(items):
        if it[0] == "B":
            for sub in _variants(it[2]):
                yield items[:i] + [("B", it[1], sub)] + items[i + 1:]
            # replace batch by its contents
            yield items[:i] + it[2] + items[i + 1:]
        if it[0] == "S":
            toks = list(it[1])
            for k in (3, 4, 5):       # deps, reads, writes
                if k != 3 and toks[7] != "d":
                    continue          # a static menu system's access is fixed by its type
                if toks[k] != "-":
                    elems = toks[k].split(",")
                    for j in range(len(elems)):
                        t2 = list(toks)
                        rest = elems[:j] + elems[j + 1:]
                        t2[k] = ",".join(rest) if rest else "-"
                        yield items[:i] + [("S", t2)] + items[i + 1:]


class PlanSuite(PipeSuite):
    name = "plan"

    def gens(self, tier, seed, sspec):
        s = str(seed)
        if sspec.get("meta"):
            n = {"quick": "200", "thorough": "6000"}.get(tier, "1500")
            g = [("metamorphic pairs (renamed systems, injectively relabelled resources across types/dynamic ids, permuted+duplicated access lists, unreferenced names erased or anonymous systems named, a pool of another size attached)",
                  ["--gen", "meta", "--count", n, "--seed", s], {}),
                 ("metamorphic pairs, crate built without the `parallel` feature", ["--gen", "meta", "--count", n, "--seed", s], {"parallel": False}),
                 ("random programs, crate built without the `parallel` feature", ["--gen", "random", "--count", str(int(n) // 2), "--seed", s], {"parallel": False})]
            if not os.path.exists(C.harness_bin(False, False)):
                g = [x for x in g if x[2].get("parallel", True)]
            return g
        if tier == "quick":
            g = [("exhaustive<=3sys stride16", ["--gen", "exh", "--count", "16", "--seed", s], {}),
                 ("random", ["--gen", "random", "--count", "900", "--seed", s], {}),
                 ("malformed", ["--gen", "malformed", "--count", "250", "--seed", s], {}),
                 ("funnel", ["--gen", "funnel", "--count", "250", "--seed", s], {}),
                 ("chain", ["--gen", "chain", "--count", "150", "--seed", s], {}),
                 ("recover: ill-formed registrations caught, the same builder used on", ["--gen", "recover", "--count", "300", "--seed", s], {}),
                 ("widestage: one stage of 60-90 groups, then systems conflicting with / depending on one of them", ["--gen", "widestage", "--count", "12", "--seed", s], {}),
                 ("saturated: a stage whose groups all reach the join limit, then further systems", ["--gen", "saturated", "--count", "4", "--seed", s], {})]
        elif tier == "thorough":
            g = [("exhaustive<=3sys full", ["--gen", "exh", "--count", "1", "--seed", s], {}),
                 ("random", ["--gen", "random", "--count", "30000", "--seed", s], {}),
                 ("malformed", ["--gen", "malformed", "--count", "6000", "--seed", s], {}),
                 ("funnel", ["--gen", "funnel", "--count", "6000", "--seed", s], {}),
                 ("chain", ["--gen", "chain", "--count", "3000", "--seed", s], {}),
                 ("recover: ill-formed registrations caught, the same builder used on", ["--gen", "recover", "--count", "8000", "--seed", s], {}),
                 ("widestage: one stage of 60-90 groups, then systems conflicting with / depending on one of them", ["--gen", "widestage", "--count", "300", "--seed", s], {}),
                 ("saturated: a stage whose groups all reach the join limit, then further systems", ["--gen", "saturated", "--count", "60", "--seed", s], {}),
                 ("random(release build)", ["--gen", "random", "--count", "6000", "--seed", str(seed + 1)], {"release": True}),
                 ("funnel(release build)", ["--gen", "funnel", "--count", "3000", "--seed", str(seed + 1)], {"release": True})]
            if not os.path.exists(C.harness_bin(True, True)):
                g = [x for x in g if not x[2].get("release")]
        else:   # directed search after a broken obligation / correspondence: 10x the quick budget
            g = [("search:random", ["--gen", "random", "--count", "4000", "--seed", s], {}),
                 ("search:malformed", ["--gen", "malformed", "--count", "1200", "--seed", s], {}),
                 ("search:funnel", ["--gen", "funnel", "--count", "1200", "--seed", s], {}),
                 ("search:chain", ["--gen", "chain", "--count", "800", "--seed", s], {}),
                 ("search:recover", ["--gen", "recover", "--count", "1500", "--seed", s], {}),
                 ("search:widestage", ["--gen", "widestage", "--count", "60", "--seed", s], {}),
                 ("search:saturated", ["--gen", "saturated", "--count", "20", "--seed", s], {}),
                 ("search:exhaustive<=3sys stride4", ["--gen", "exh", "--count", "4", "--seed", s], {})]
        # the sequential fall-backs of the crate built without the `parallel` feature (plans must be the same: C19; barriers,
        # dependencies, exactly-once, the printed plan hold there too)
        if sspec.get("nopar") and os.path.exists(C.harness_bin(False, False)):
            n = {"quick": "200", "thorough": "5000"}.get(tier, "800")
            g.append(("random programs, crate built without the `parallel` feature", ["--gen", "random", "--count", n, "--seed", s], {"parallel": False}))
            g.append(("funnel programs, crate built without the `parallel` feature", ["--gen", "funnel", "--count", str(int(n) // 4), "--seed", s], {"parallel": False}))
        return g

    def shrink(self, case, oracle):
        head, _, prog = case.partition(" :: ")
        if "meta=" in head:
            return case         # a metamorphic pair is replayed as a pair
        try:
            items = parse_prog(prog.split())
        except Exception:       # noqa
            return case
        budget = 400
        changed = True
        while changed and budget > 0:
            changed = False
            for cand in _variants(items):
                budget -= 1
                if budget <= 0:
                    break
                c = head + " :: " + print_prog(cand)
                if self.still_fails(c, oracle):
                    items = cand
                    changed = True
                    break
        return head + " :: " + print_prog(items)


class ExecSuite(PipeSuite):
    name = "exec"

    def gens(self, tier, seed, sspec):
        s = str(seed)
        kf1 = sspec.get("kf1", False)
        if tier == "quick":
            g = [("random schedules (free/hold/overlap/jitter)", ["--gen", "random", "--count", "110", "--seed", s], {}),
                 ("fault injection", ["--gen", "faults", "--count", "50", "--seed", s], {}),
                 ("funnel plans (joined groups) under overlap/jitter", ["--gen", "funnel", "--count", "40", "--seed", s], {})]
            if kf1:
                g.append(("thread-locals inside batches", ["--gen", "kf1", "--count", "25", "--seed", s], {}))
            if sspec.get("nopar") and os.path.exists(C.harness_bin(False, False)):
                g.append(("random schedules, crate built without the `parallel` feature", ["--gen", "random", "--count", "60", "--seed", s], {"parallel": False}))
                g.append(("fault injection, crate built without the `parallel` feature", ["--gen", "faults", "--count", "25", "--seed", s], {"parallel": False}))
        elif tier == "thorough":
            g = [("random schedules (free/hold/overlap/jitter)", ["--gen", "random", "--count", "4000", "--seed", s], {}),
                 ("fault injection", ["--gen", "faults", "--count", "1500", "--seed", s], {}),
                 ("funnel plans (joined groups) under overlap/jitter", ["--gen", "funnel", "--count", "1500", "--seed", s], {})]
            if kf1:
                g.append(("thread-locals inside batches", ["--gen", "kf1", "--count", "500", "--seed", s], {}))
            if sspec.get("nopar") and os.path.exists(C.harness_bin(False, False)):
                g.append(("random schedules, crate built without the `parallel` feature", ["--gen", "random", "--count", "1500", "--seed", s], {"parallel": False}))
                g.append(("fault injection, crate built without the `parallel` feature", ["--gen", "faults", "--count", "600", "--seed", s], {"parallel": False}))
        else:
            g = [("search:random", ["--gen", "random", "--count", "500", "--seed", s], {}),
                 ("search:faults", ["--gen", "faults", "--count", "200", "--seed", s], {}),
                 ("search:funnel", ["--gen", "funnel", "--count", "300", "--seed", s], {})]
            if kf1:
                g.append(("search:kf1", ["--gen", "kf1", "--count", "100", "--seed", s], {}))
        return g

    def still_fails(self, case, oracle):
        r = self.run_cases([case])
        base = oracle.split(":")[0]
        return any(o.split(":")[0] == base for (o, _l, _c) in r.oracle_failures)

    def shrink(self, case, oracle):
        head, _, prog = case.partition(" :: ")
        try:
            items = parse_prog(prog.split())
        except Exception:       # noqa
            return case
        budget = 120
        changed = True
        while changed and budget > 0:
            changed = False
            for cand in _variants(items):
                budget -= 1
                if budget <= 0:
                    break
                c = head + " :: " + print_prog(cand)
                if self.still_fails(c, oracle):
                    items = cand
                    changed = True
                    break
        return head + " :: " + print_prog(items)


class WorldSuite(PipeSuite):
    name = "world"

    def gens(self, tier, seed, sspec):
        s = str(seed)
        if tier == "quick":
            return [("exhaustive len<=4 over 2 keys, 12-op menu, stride 4", ["--gen", "exh", "--count", "4", "--seed", s], {}),
                    ("random histories (len<=200, 4 types x 3 dynamic ids)", ["--gen", "random", "--count", "150", "--seed", s], {}),
                    ("histories with mismatching type arguments", ["--gen", "malformed", "--count", "150", "--seed", s], {})]
        if tier == "thorough":
            return [("exhaustive len<=4 over 2 keys, 12-op menu", ["--gen", "exh", "--count", "1", "--seed", s], {}),
                    ("random histories", ["--gen", "random", "--count", "6000", "--seed", s], {}),
                    ("histories with mismatching type arguments", ["--gen", "malformed", "--count", "6000", "--seed", s], {})]
        return [("search:random", ["--gen", "random", "--count", "1500", "--seed", s], {}),
                ("search:malformed", ["--gen", "malformed", "--count", "1500", "--seed", s], {}),
                ("search:exh stride 2", ["--gen", "exh", "--count", "2", "--seed", s], {})]

    def shrink(self, case, oracle):
        head, _, body = case.partition(" :: ")
        ops = [o.strip() for o in body.split(";") if o.strip()]
        budget = 300
        changed = True
        while changed and budget > 0:
            changed = False
            n = len(ops)
            size = max(1, n // 2)
            while size >= 1 and not changed:
                for start in range(0, n, size):
                    cand = ops[:start] + ops[start + size:]
                    budget -= 1
                    if budget <= 0:
                        break
                    if cand and self.still_fails(head + " :: " + " ; ".join(cand), oracle):
                        ops = cand
                        changed = True
                        break
                size //= 2
        return head + " :: " + " ; ".join(ops)


class SysdataSuite(PipeSuite):
    """S4: the generated crate enumerates its own case table (every generated type expression under
    several presence masks); nothing random except the choice of the extra masks"""
    name = "sysdata"

    def harness(self, release=False, parallel=True):
        return C.SD_BIN

    def cmd_prefix(self):
        return []

    def gens(self, tier, seed, sspec):
        s = str(seed)
        if tier == "thorough":
            return [("all generated type expressions x 7 presence masks", ["--seed", s], {}),
                    ("all generated type expressions, other masks", ["--seed", str(seed + 1)], {}),
                    ("all generated type expressions, other masks(2)", ["--seed", str(seed + 2)], {})]
        return [("all generated type expressions x 7 presence masks", ["--seed", s], {})]

    def run(self, tier, seed, sspec, focus=None):
        # the sysdata binary takes no suite name argument
        return super().run(tier, seed, sspec, focus)


class MetaSuite(WorldSuite):
    name = "meta"

    def gens(self, tier, seed, sspec):
        s = str(seed)
        if tier == "quick":
            return [("exhaustive len<=5 over 3 types, 11-op menu, stride 16", ["--gen", "exh", "--count", "16", "--seed", s], {}),
                    ("random histories (register with repeats, insert/remove, get/get_mut, iter/iter_mut, held fetches)", ["--gen", "random", "--count", "150", "--seed", s], {}),
                    ("histories including a type with an address-changing cast", ["--gen", "bad", "--count", "100", "--seed", s], {})]
        if tier == "thorough":
            return [("exhaustive len<=5 over 3 types, 11-op menu", ["--gen", "exh", "--count", "1", "--seed", s], {}),
                    ("random histories", ["--gen", "random", "--count", "6000", "--seed", s], {}),
                    ("histories including a type with an address-changing cast", ["--gen", "bad", "--count", "4000", "--seed", s], {})]
        return [("search:random", ["--gen", "random", "--count", "1500", "--seed", s], {}),
                ("search:bad", ["--gen", "bad", "--count", "800", "--seed", s], {}),
                ("search:exh stride 4", ["--gen", "exh", "--count", "4", "--seed", s], {})]


class ParseqSuite(PipeSuite):
    name = "parseq"

    def gens(self, tier, seed, sspec):
        s = str(seed)
        if tier == "quick":
            return [("all tree shapes with <= 4 leaves x 2 access patterns", ["--gen", "exh", "--count", "2", "--seed", s], {}),
                    ("random conflict-free trees (depth<=5, fan-out<=6; pools 1,2,4,16; free/overlap/jitter; inside/outside the pool)", ["--gen", "random", "--count", "40", "--seed", s], {}),
                    ("random trees with conflicting leaves (debug check)", ["--gen", "conflicts", "--count", "60", "--seed", s], {}),
                    ("wide pars (0..70 padding children, a child reading and writing X, a conflicting or harmless last child), every 5th", ["--gen", "wide", "--count", "5", "--seed", s], {})]
        if tier == "thorough":
            return [("all tree shapes with <= 4 leaves x 40 access patterns", ["--gen", "exh", "--count", "40", "--seed", s], {}),
                    ("random conflict-free trees", ["--gen", "random", "--count", "1500", "--seed", s], {}),
                    ("random trees with conflicting leaves (debug check)", ["--gen", "conflicts", "--count", "2500", "--seed", s], {}),
                    ("wide pars (0..70 padding children, a child reading and writing X, a conflicting or harmless last child), all 756", ["--gen", "wide", "--count", "1", "--seed", s], {})]
        return [("search:exh x 8 patterns", ["--gen", "exh", "--count", "8", "--seed", s], {}),
                ("search:random", ["--gen", "random", "--count", "300", "--seed", s], {}),
                ("search:conflicts", ["--gen", "conflicts", "--count", "600", "--seed", s], {}),
                ("search:wide", ["--gen", "wide", "--count", "1", "--seed", s], {})]


class AsyncSuite(ExecSuite):
    name = "async"

    def gens(self, tier, seed, sspec):
        s = str(seed)
        n = {"quick": "40", "thorough": "1500"}.get(tier, "250")
        return [("random op sequences (dispatch/running/wait/wait_without_tl/world/world_mut/setup) on random plans, a system held inside run or jitter; pools 1,2,4,16",
                 ["--count", n, "--seed", s], {})]


class PoolSuite(PipeSuite):
    """S8: few, timing-sensitive cases: run in 2 shards only so that the pools are not starved by the suite itself"""
    name = "pool"

    def gens(self, tier, seed, sspec):
        s = str(seed)
        if tier == "thorough":
            return [("widths 2..16 x {user pool = width, user pool 16, default pool, batch-inner, async, called from a worker of a foreign pool, default pool shared with a narrow batch, user pool attached after the batch was registered, async dispatch+wait called from a worker of a foreign pool, async dispatch twice then wait, default pool driven from a worker of a foreign pool (sync and async), a batch that also holds a nested batch, a stage two batches deep (user pool on the outermost builder only), a batch under an outer dispatch_seq, after a panic caught in a sequential dispatch, the sendable form driven through RunNow, two async dispatchers on one pool} x 25 dispatches", ["--gen", "all", "--count", "25", "--seed", s], {"shards": 2})]
        if tier == "quick":
            return [("widths 2..16 x {user pool = width, user pool 16, default pool, batch-inner, async, called from a worker of a foreign pool, default pool shared with a narrow batch, user pool attached after the batch was registered, async dispatch+wait called from a worker of a foreign pool, async dispatch twice then wait, default pool driven from a worker of a foreign pool (sync and async), a batch that also holds a nested batch, a stage two batches deep (user pool on the outermost builder only), a batch under an outer dispatch_seq, after a panic caught in a sequential dispatch, the sendable form driven through RunNow, two async dispatchers on one pool} x 3 dispatches", ["--gen", "all", "--count", "3", "--seed", s], {"shards": 2})]
        return [("search: widths 2,3,5 x all configurations x 6 dispatches", ["--gen", "small", "--count", "6", "--seed", s], {"shards": 2})]


class CellsSuite(PipeSuite):
    """S9: which pool runs the systems of every builder of a tree of nested batches (model PoolCells.v)"""
    name = "cells"

    def gens(self, tier, seed, sspec):
        s = str(seed)
        n = {"quick": "40", "thorough": "1500"}.get(tier, "300")
        return [("random trees of add_pool / add_batch calls (depth <= 3, three named user pools), a probe system in every builder; the situations of the repaired defect first",
                 ["--count", n, "--seed", s], {"shards": 4})]


SUITES = {"cells": CellsSuite(), "plan": PlanSuite(), "exec": ExecSuite(), "world": WorldSuite(), "sysdata": SysdataSuite(), "meta": MetaSuite(),
          "parseq": ParseqSuite(), "async": AsyncSuite(), "pool": PoolSuite()}


# ----------------------------------------------------------------------------------------
# known findings: class predicates on a case

def _batch_contains_tl(case):
    _head, _, prog = case.partition(" :: ")
    try:
        items = parse_prog(prog.split())
    except Exception:       # noqa
        return False

    def has_tl(items):
        return any(it[0] == "T" or (it[0] == "B" and has_tl(it[2])) for it in items)

    def rec(items):
        return any(it[0] == "B" and (has_tl(it[2]) or rec(it[2])) for it in items)
    return rec(items)


PREDICATES = {"batch_contains_thread_local": _batch_contains_tl}


def match_known(known, suite, case, oracle, level=""):
    """a finding is attributed to a listed known finding only if the case is of its class AND
       either the failing oracle is one of those that observe the finding itself (match.direct), or the run shows the
       finding's downstream symptom (match.symptom: "+bp" = a real borrow panic happened in this run)"""
    for k in known:
        if "fixed" in k:
            continue
        m = k.get("match", {})
        if suite not in m.get("suites", [suite]):
            continue
        pred = PREDICATES.get(m.get("predicate", ""))
        if not (pred and pred(case)):
            continue
        base = oracle.split(":")[0]
        if base in m.get("direct", []) or oracle in m.get("direct", []):
            return k
        sym = m.get("symptom")
        if sym and sym in (level or ""):
            return k
    return None
