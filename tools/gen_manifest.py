#!/usr/bin/env python3
"""writes MANIFEST.json from the table below (keeps it valid and in step with check.py)"""
import json
import os
import sys
sys.path.insert(0, os.path.dirname(os.path.abspath(__file__)))
VERIF = os.path.normpath(os.path.join(os.path.dirname(os.path.abspath(__file__)), ".."))

TB = ("Coq 8.16.1 kernel; axioms: none (every theorem 'Closed under the global context', parsed on every run); "
      "extraction (ExtrOcamlBasic, no Extract Constant) + OCaml driver; Rust harness; hand-written model tied to /repo by "
      "the differential suites of the run; SrcParams.v regenerated from the source")

CLAIMS = {
 "C01": ("proof: planner theorem C01_side_by_side_systems_do_not_conflict over all registration programs (invariant I3+I5 by induction "
         "over the registration sequence); model tied to the real builder by suite S1 (exhaustive small scope + random/funnel/chain "
         "programs, layouts compared, oracle `isolated` evaluated on every REAL layout)",
         "runtime half (no overlapping windows in any interleaving) is added with the executor model; rayon modelled, not verified",
         "invariant induction + differential correspondence", "5 C01"),
 "C02": ("proof: C02_dependencies_placed_in_front for all programs (invariant I6: scan invariant over pending dependencies); tie: S1 with "
         "oracle `deps_ordered` on every real layout", "that stage/group order implies run order is the executor model's part",
         "invariant induction + differential correspondence", "5 C02"),
 "C03": ("proof: C03_barrier_separates for any pre/post programs, barrier idempotence, thread-locals unaffected; tie: S1 with barriers "
         "at every position, oracle `barriers` on every real layout", "stage order = run order is the executor model's part",
         "invariant induction + differential correspondence", "5 C03"),
 "C04": ("proof: executed layout is a Permutation of the registered systems for programs of any length, id table = executed list, "
         "groups never over capacity (constants re-read from the source, params_ok re-proved); tie: S1 (shape hook + identification run)",
         "per-dispatch run counts are the executor model's part", "invariant induction + differential correspondence", "5 C04"),
 "C10": ("S1 layouts + oracle skip_justified on every real layout (theorem in progress)", "see DESIGN", "differential correspondence", "5 C10"),
 "C18": ("proof: C18_builder_total_and_errors_exact: for programs of any length and nesting the model builder fails exactly when the "
         "name-bookkeeping specification says so, with that error; no capacity/index/unwrap/overflow/unreachable error reachable "
         "(params_ok re-proved for the constants in the source); tie: S1 incl. malformed stream, outcome + quoted name of every call",
         "panic message text is compared by the harness (prefix + quoted name)", "induction on program size + differential correspondence", "5 C18"),
 "C20": ("S1: printed text compared with the model's and with the real executed layout (theorem in progress)", "see DESIGN",
         "differential correspondence", "5 C20"),
}
REGISTERED = ["C01", "C02", "C03", "C04", "C18"]

def main():
    props = [json.loads(l) for l in open(os.path.join(VERIF, "properties.jsonl"))]
    checks = []
    for pid in REGISTERED:
        text, note, tech, ref = CLAIMS[pid]
        checks.append(dict(
            property_id=pid,
            quick_cmd="python3 tools/check.py %s --tier quick" % pid,
            thorough_cmd="python3 tools/check.py %s --tier thorough" % pid,
            evidence_file="/verif/evidence/%s.json" % pid,
            replay_cmd_template="python3 tools/check.py %s --replay {path}" % pid,
            engine="coq+diff",
            level_claimed=dict(category="proof", text=text, design_ref="DESIGN.md §" + ref),
            level_note=note + ". Trusted base: " + TB,
            technique="machine-checked proof in Coq (" + tech + ")"))
    na = [dict(property_id=p["id"], reason="check under construction in this round (not yet registered)")
          for p in props if p["id"] not in REGISTERED]
    m = dict(version=1, setup_cmd="python3 tools/setup.py",
             hooks=dict(guard="verif-hooks",
                        enable="cargo feature `verif-hooks` of shred, switched on by /verif/harness/Cargo.toml (path dependency on /repo)",
                        baseline_off_cmd="cd /repo && cargo test --workspace --no-fail-fast --offline",
                        source_commits=["414f23d"], add_only=True),
             engines=[dict(name="coq+diff", path="/verif/tools/check.py", serves_properties=REGISTERED,
                           kind_free_text="Coq 8.16 theorems about hand-written Gallina models + differential correspondence "
                                          "(Rust harness on the real crate vs extracted OCaml model) + boolean oracles on real observations")],
             checks=checks,
             notes="fix: commits in /repo: 526450e (C20), f8d62d5 (C10); see known_findings.json and DESIGN.md",
             not_applicable=na)
    json.dump(m, open(os.path.join(VERIF, "MANIFEST.json"), "w"), indent=1)
    print("MANIFEST.json: %d checks" % len(checks))

if __name__ == "__main__":
    main()
