#!/usr/bin/env python3
"""writes MANIFEST.json from the table below (keeps it valid and in step with check.py)"""
import json
import os
import sys
sys.path.insert(0, os.path.dirname(os.path.abspath(__file__)))
VERIF = os.path.normpath(os.path.join(os.path.dirname(os.path.abspath(__file__)), ".."))

TB = ("Coq 8.16.1 kernel; axioms: none (every theorem 'Closed under the global context', parsed on every run); "
      "extraction (ExtrOcamlBasic, no Extract Constant) + OCaml driver; Rust harness; hand-written model tied to /repo by "
      "the differential suites of the run; SrcParams.v regenerated from the source")

CLAIMS = {
 "C01": ("proof: planner theorem C01_side_by_side_systems_do_not_conflict over all registration programs (invariant I3+I5 by induction "
         "over the registration sequence); model tied to the real builder by suite S1 (exhaustive small scope + random/funnel/chain "
         "programs, layouts compared, oracle `isolated` evaluated on every REAL layout); run time: in EVERY trace of the executor model "
         "conflicting windows are disjoint; the trace acceptor accepts EXACTLY the model's traces (accept_iff); every oracle has a "
         "meaning theorem (true on a real layout / recorded trace => the property holds of it) and a holds-on-the-model theorem "
         "(it can only fire where the crate differs from the model)",
         "rayon modelled, not verified; KNOWN FINDING KF1 (narrowly attributed, see known_findings.json)",
         "invariant induction + differential correspondence", "5 C01"),
 "C02": ("proof: C02_dependencies_placed_in_front for all programs (invariant I6: scan invariant over pending dependencies); tie: S1 with "
         "oracle `deps_ordered` on every real layout, also on builders used on after rejected calls (C02_recovered_builder_orders_dependencies)", "that stage/group order implies run order is the executor model's part",
         "invariant induction + differential correspondence", "5 C02"),
 "C03": ("proof: C03_barrier_separates for any pre/post programs, barrier idempotence, thread-locals unaffected; tie: S1 with barriers "
         "at every position, oracle `barriers` on every real layout", "stage order = run order is the executor model's part",
         "invariant induction + differential correspondence", "5 C03"),
 "C04": ("proof: executed layout is a Permutation of the registered systems for programs of any length, id table = executed list, "
         "groups never over capacity (constants re-read from the source, params_ok re-proved); tie: S1 (shape hook + identification run, then "
         "one more dispatch through the parallel entry point: every top-level system exactly once more, stages of up to 270 groups), S2 run counts",
         "per-dispatch run counts are the executor model's part", "invariant induction + differential correspondence", "5 C04"),
 "C05": ("proof: C05_parallel_dispatch_equals_sequential_dispatch: for every planned program, every value type, every family of "
         "effects that respect the declared access and every initial world, EVERY trace of k parallel dispatches ends in the world "
         "(resources + system states) of k sequential dispatches (commutation of non-conflicting effects + confluence of "
         "interleavings + plan_isolated); batches: composition respects every covering declaration (with C07). tie: S2 value "
         "prediction: order-sensitive 64-bit hash updates, final world and per-system states of the real parallel run (free / held / "
         "forced-overlap / jitter schedules, pools 1,2,4,16, joined-group funnel plans) must equal the sequential twin run",
         "effects are applied atomically at release in the model; batches whose inner-dispatch count depends on the world are "
         "outside the batch lemma (the harness's MultiDispatcher counts are fixed); rayon modelled",
         "confluence proof + differential correspondence", "5 C05"),
 "C06": ("proof by structural induction over type expressions of ANY arity and nesting (Read/Write with default, panic or user-written handler, Option "
         "forms, (), PhantomData, tuples, derived structs): reported reads/writes = types of the shared/exclusive leaves in fetch "
         "order; a successful fetch adds exactly one shared guard per existing declared read and one exclusive guard per existing "
         "declared write and changes nothing else; dropping the value (or the unwinding of a failed fetch) restores cells and guards "
         "exactly; setup = composition of member setups with its exact effect, the calls of user-written handlers are the members' calls "
         "once each in member order (C06_setup_calls_compose). tie: S4 — a generated crate instantiates 1073 type "
         "expressions for real (every tuple arity in the source twice, every leaf kind at every position of arities "
         "1,2,3,5,8,13,21,26, every ordered pair of accessor kinds on one resource flat and nested, nestings to depth 3, derived named/tuple structs with 1..40 fields, extra lifetimes, type parameters, "
         "where-clauses, members without the fetch lifetime) under 7 presence masks each; reads()/writes(), fetch outcome, borrow "
         "class of every cell while the value lives and after the drop, world after setup and the log of handler calls (first and repeated setup) "
         "are compared with SysData.v",
         "parametricity of Rust generics is the (trusted) reason why finitely many instantiations characterise the generic impls and "
         "the macro; a tuple arity that no longer compiles breaks the generated crate => violation with the compiler output as replay",
         "structural induction + differential correspondence on generated instantiations", "5 C06"),
 "C07": ("proof: C07_batch_accessor_covers_controller_and_all_inner_systems by induction on nesting (any depth); "
         "C07_side_by_side_subtrees_do_not_conflict: registrations placed side by side do not conflict on anything declared inside "
         "them; the inner dispatcher is planned by the same planner (all level theorems apply to it); inner events lie inside the "
         "batch window (oracle `inside` + lemma); WHOLE TREE: C07_conflicting_systems_anywhere_in_the_tree_never_overlap over the nested "
         "trace set ntr (any depth, repeated inner dispatches, free interleaving of subtrees), inhabited, with the sound executable "
         "acceptor naccept that S2 runs on the whole log of every full dispatch. tie: S1 nested programs with oracle `isolated` on effective access against the REAL "
         "outer layout, S2 traces (no_overlap at any depth, inside, inner once/preds_done per inner dispatch)",
         "KNOWN FINDING KF1: thread-local systems inside a batch builder are invisible to the accessor (stated on the model as "
         "C07_KF1_..., witness corpus/exec-kf1.txt)",
         "structural induction on nesting + differential correspondence", "5 C07"),
 "C08": ("proof: C08_borrow_discipline_is_invariant: for EVERY history of world operations (typed and by-id fetch forms, clones, drops, "
         "reads/writes through guards, insert/remove/entry/get_mut/has) the reached state has every cell unborrowed, or shared by "
         "exactly its live shared guards, or exclusive with exactly one live exclusive guard; no aliasing guard; failing operations "
         "change nothing; None iff absent; drop releases exactly one borrow. tie: S3 — after EVERY operation of exhaustive "
         "(len<=4) and random histories (len<=200, 4 resource types of different layout x 3 dynamic ids) outcome, presence, borrow "
         "class (probed on the real AtomicRefCell), value and drop ledger of the real World must equal the model's",
         "single-threaded histories; the atomicity of atomic_refcell's counter operations under concurrent use is modelled, not "
         "verified (the concurrent use of the world is exercised by suite S2: real borrows under forced overlap)",
         "state-machine invariant by induction over histories + differential correspondence", "5 C08"),
 "C09": ("proof: refinement of the world to a finite map keyed by (type, dynamic id): insert replaces, remove returns the stored "
         "value, entry never overwrites, presence and fetch+read agree with the map, slots with other dynamic ids untouched (frame); "
         "stored type = key type in every reachable state; mismatching type argument => panic and unchanged world; accounting "
         "theorem: every object ever created is stored in exactly one slot or dropped exactly once. tie: S3 incl. mismatching type "
         "arguments on every id-taking call, get_mut_raw().type_id(), drop-counting values, teardown ledger",
         "memory-level effects of the unchecked downcasts are outside the model (type_inv is the reason they are sound)",
         "refinement + invariant induction + differential correspondence", "5 C09"),
 "C10": ("proof: C10_every_skipped_stage_is_forced for all registration programs (invariant `justified` carried through the whole "
         "registration history: a skipped stage holds an earlier-registered conflicting system or a dependency sits in it or behind it), "
         "corollary: compatible dependency-free systems share the first stage behind the barrier; max_threads = widest stage; tie: S1, "
         "oracles `skip_justified` and `max_threads` on every REAL layout",
         "genuine defect found and repaired (fix: f8d62d5): pre-barrier and repeated dependencies were never crossed off",
         "invariant induction + differential correspondence", "5 C10"),
 "C11": ("PARTIAL proof. (a) the logic half - which pool runs the systems of a batch - is a theorem for ALL trees of add_pool/add_batch calls "
         "(PoolCells.v: C11_every_dispatcher_of_the_tree_uses_the_outermost_pool, C11_the_pool_of_the_tree_is_the_attached_one; the code before "
         "fix 94c4994 is refuted), tied to the crate by suite S9 (the same trees built for real, named user pools, a probe system per builder). "
         "(b) theorems about a pool MODEL (Pool.v: P workers, an idle worker takes a pending group, rendezvous heads): with "
         "P >= width no reachable non-final state is stuck and the all-inside-run state is reachable; with P < width a deadlock is "
         "reachable (the precondition is needed). tie: S8 on the REAL crate and REAL rayon pools: for every stage width 2..16 x "
         "{user pool of exactly `width` threads, user pool of 16, default pool (one thread per CPU, widths <= CPUs), inside a batch, "
         "async dispatcher, SendDispatcher with its own pool dispatched from the only worker of ANOTHER rayon pool, default pool driven from a foreign worker (sync and async), "
         "async dispatch twice then wait, a batch registered before the pool is attached, a batch holding a nested batch, a stage two batches deep (pool on the outermost builder only)} all systems of the stage must be inside run simultaneously (condvar rendezvous, 5 s limit), over "
         "repeated dispatches; the model's prediction (completes iff threads >= width) is compared, incl. two deadlocking cases",
         "that rayon behaves like the model (work stealing, par_iter splitting) is runtime behaviour of a dependency: exercised, "
         "not proved. A serialising change deadlocks the rendezvous => VIOLATION with the configuration as replay; a configuration that never comes back is reported as `hang` by a watchdog. "
         "Genuine defect found and repaired (fix: 94c4994): a pool attached to the outermost builder did not reach batches nested two or more levels deep",
         "state-machine proof about a pool model + runtime rendezvous on the real pools (partial)", "5 C11"),
 "C12": ("proof: thread-local list = thread-local registrations in order (all programs); in EVERY trace of the executor model the "
         "thread-local windows come last, after every ordinary system has released, one at a time in registration order, on the "
         "calling thread; sendable <=> no thread-local systems; tie: S1 (tl count/order, try_into_sendable outcome and preserved plan), "
         "S2 (recorded traces with thread identity, hold mode; dispatch, dispatch_par/seq + dispatch_thread_local, and RunNow::run_now / "
         "setup / dispose on the Dispatcher driven as a system), S7 (async: thread-local systems only inside wait, on the calling thread, "
         "after all others, every wait runs all of them in registration order)",
         "KNOWN FINDING KF1 (listed in known_findings.json): thread-local systems of a builder passed to add_batch run on the pool "
         "worker executing the batch; rayon modelled, not verified",
         "trace-set theorems + differential correspondence", "5 C12"),
 "C13": ("proof: C13_setup_and_dispose_visit_every_system_once: for every program well formed at every depth the list of hooks "
         "called by Dispatcher::setup / ::dispose (stages, groups, members, batches recursively, then thread-locals) is a Permutation "
         "of all systems of the program; tie: S2 records the real setup and dispose hook calls and compares their exact ORDER with "
         "the extracted model list, plus world unchanged by a setup on a populated world",
         "genuine defect found and repaired (fix: 5f7fbf8): dispose never reached systems inside a batch. The world half "
         "(C13_setup_never_clobbers_and_creates_only_defaults, idempotence) is proved in SysDataProps.v and tied by suite S4 (world "
         "after setup of 787 generated type expressions under presence masks, existing values must be kept, repeated setup)",
         "structural induction on nesting + differential correspondence", "5 C13"),
 "C14": ("proof over the faulty trace sets of Fault.v, for EVERY fault set and interleaving: panic reaches the caller iff a system "
         "panicked; no system placed behind a panicking one runs (so no dependent, C02); no thread-local after a staged panic; nothing "
         "runs twice; everything fetched is released; with no fault the model is the ordinary one (next dispatch). tie: S2 with fault "
         "injection (1-2 panicking systems at every kind of position incl. inside batches and controllers, thread-locals), every "
         "recorded faulty trace must be accepted by the extracted faulty acceptor, payload/probe/next-dispatch oracles on the real run",
         "unwinding and rayon's panic propagation are modelled (superset: siblings complete, stop at their own panic or never start)",
         "trace-set theorems + differential correspondence", "5 C14"),
 "C15": ("proof over the labelled transition system of the hand-off (Async.v), for EVERY interleaving of caller operations and job "
         "steps and every operation sequence: wait / wait_without_tl / world / world_mut / setup return only when no job is running "
         "or pending; running() = false only when finished, true while a job runs; a dispatch starts only after the previous job is "
         "complete; the finished work is a sequence of whole dispatch traces (every ordinary system once, C04) and thread-local "
         "passes contributed only by wait. tie: S8 async configurations (two dispatchers on one pool, dispatch twice, caller inside a foreign pool) and S7 — random operation sequences on random plans with the REAL AsyncDispatcher, one "
         "background system held inside run while the caller polls running(), or jitter; pools 1,2,4,16; the recorded history "
         "(system events + begin/end markers of every call) must be accepted by the extracted acceptor of the state machine; "
         "oracles on the raw log (no open window when an accessor returns, running() never false while a system is inside run, "
         "thread-local systems only inside wait on the calling thread after all others, every wait runs all of them in order, "
         "run counters = number of dispatches)",
         "mpsc channel and ThreadPool::spawn are modelled (send/receive as atomic steps); the acceptor is not proved to simulate the LTS; "
         "instead AsyncAccept.v proves directly what acceptance of a RECORDED history means (an accepted history ending with an accessor's "
         "return consists of complete dispatches, each a trace of the model, and nothing is active; running()=true only with an outstanding "
         "job; thread-local events only inside wait on the caller after the job; pool events never overtake); events inside batches are checked by S2",
         "LTS invariants by induction over runs + differential correspondence", "5 C15"),
 "C16": ("proof by induction over trees of any depth and fan-out: every trace is a permutation of the sequential trace (each leaf "
         "exactly once); for every seq node at any depth, every leaf of an earlier child has released before any leaf of a later "
         "child fetches, in EVERY trace; par children may overlap; node reads/writes = concatenation over its leaves; the debug check "
         "of Par::with panics iff W/W, W/R or R/W conflict with the accumulated children. tie: S6 — trees assembled at run time from "
         "the REAL Par/Seq types through a boxing adapter: all shapes with <= 4 leaves, random trees to depth 5 / fan-out 6, "
         "arbitrary leaf access (so some `with` calls must panic), pools 1,2,4,16, dispatch from outside and inside the pool, "
         "forced overlap of par children, jitter; build outcome, reported reads/writes, setup order, recorded trace (accepted by "
         "the extracted acceptor), run counts over two dispatches",
         "debug build (check active) in the quick tier; rayon join modelled as arbitrary interleaving; setup order = leaves in "
         "order is definitional in the model and compared with the recorded calls",
         "structural induction + differential correspondence", "5 C16"),
 "C17": ("proof: table invariant (aligned tables, no type twice, tys = first-registration order) for EVERY register sequence with "
         "repeats, total; get converts exactly the registered types through the vtable made for that very type, None otherwise, "
         "panic for an address-changing cast; the shared iterator over a world without exclusive borrows yields exactly the "
         "registered types present, in first-registration order, once each, own vtable, stored value. tie: S5 — exhaustive "
         "(len<=5 over 3 types) and random histories of register / insert / remove / get / get_mut / iter / iter_mut / held "
         "fetches over 7 implementing types of 16 bytes..4 KiB (one with a wrong CastFrom), self-reported tag, value and address "
         "of every object compared with Meta.v",
         "the exclusive iterator and iteration under live guards are covered by the executable model + S5, not by a separate "
         "theorem; `present` = stored under dynamic id 0 (what the iterators look up); vtable reconstruction from raw pointers is "
         "modelled (tag = type the function was instantiated for); the nightly cfg is not modelled",
         "invariant induction + differential correspondence", "5 C17"),
 "C18": ("proof: C18_builder_total_and_errors_exact: for programs of any length and nesting the model builder fails exactly when the "
         "name-bookkeeping specification says so, with that error; no capacity/index/unwrap/overflow/unreachable error reachable "
         "(params_ok re-proved for the constants in the source); C18_rejected_registration_leaves_no_trace: a builder used on after caught "
         "panics (model plan_rec: the rejected call only consumes its id) has exactly the plan of the accepted registrations, by a "
         "simulation up to an injective renaming of ids, and meets every plan oracle; tie: S1 incl. malformed stream, outcome + quoted "
         "name of every call, and recovery mode (every rejected call caught, same builder used on, compared with plan_rec)",
         "panic message text is compared by the harness (prefix + quoted name)", "induction on program size + differential correspondence", "5 C18"),
 "C19": ("proof: C19_plan_invariant_under_renaming_relabelling_and_list_order — one simulation theorem over all registration programs "
         "(any length and nesting): for every injective relabelling phi of resources, every injective renaming rho of systems that "
         "keeps the empty name empty, and access lists that as SETS are the phi-image of the original ones (any permutation, any "
         "duplication), the second program builds the same plan (layout of system objects, thread-local list, max threads, id "
         "table); C19_unreferenced_names_are_irrelevant: registering any set of systems whose names no dependency list mentions as "
         "anonymous instead (or the reverse) leaves the stages identical; determinism = the planner is a function. tie: S1 metamorphic pairs on the REAL builder: the plan of the variant "
         "is compared with the plan of the base (real vs real), resources realised as static types or dynamic ids under three "
         "mappings, crate built with and without the `parallel` feature (separate processes); both are also compared with the model",
         "TypeId order and hash-map iteration order are shown irrelevant by the invariance of the model + the metamorphic pairs; "
         "menu (static) systems and controllers with declared data are excluded from the pairs (their access is fixed by their type)",
         "simulation proof + metamorphic differential correspondence", "5 C19"),
 "C20": ("proof: C20_printed_text_is_the_executed_layout for all registration programs: the text of write_par_seq is the rendering "
         "of the executed layout (boxed systems per stage/group/position) with each system shown by its sanitised name or the "
         "placeholder of its id; printer total in the model; tie: S1 compares the REAL Debug text with the model text and evaluates "
         "`print_matches` against the REAL executed layout (identification run)",
         "genuine defect found and repaired (fix: 526450e): unnamed system => unwrap on None; thread-local systems have no "
         "stage/group and are outside the text",
         "invariant induction + differential correspondence", "5 C20"),
}
REGISTERED = ["C01", "C02", "C03", "C04", "C05", "C06", "C07", "C08", "C09", "C10", "C11", "C12", "C13", "C14", "C15", "C16", "C17", "C18", "C19", "C20"]

def main():
    props = [json.loads(l) for l in open(os.path.join(VERIF, "properties.jsonl"))]
    checks = []
    for pid in REGISTERED:
        text, note, tech, ref = CLAIMS[pid]
        checks.append(dict(
            property_id=pid,
            quick_cmd="python3 tools/check.py %s --tier quick" % pid,
            thorough_cmd="python3 tools/check.py %s --tier thorough" % pid,
            evidence_file="/verif/evidence/%s.json" % pid,
            replay_cmd_template="python3 tools/check.py %s --replay {path}" % pid,
            engine="coq+diff",
            level_claimed=dict(category="proof", text=text, design_ref="DESIGN.md §" + ref),
            level_note=note + ". Trusted base: " + TB,
            technique="machine-checked proof in Coq (" + tech + ")"))
    na = [dict(property_id=p["id"], reason="check under construction (not yet registered)")
          for p in props if p["id"] not in REGISTERED]
    m = dict(version=1, setup_cmd="python3 tools/setup.py",
             hooks=dict(guard="verif-hooks",
                        enable="cargo feature `verif-hooks` of shred, switched on by /verif/harness/Cargo.toml (path dependency on /repo)",
                        baseline_off_cmd="cd /repo && cargo test --workspace --no-fail-fast --offline",
                        source_commits=["414f23d"], add_only=True),
             engines=[dict(name="coq+diff", path="/verif/tools/check.py", serves_properties=REGISTERED,
                           kind_free_text="Coq 8.16 theorems about hand-written Gallina models + differential correspondence "
                                          "(Rust harness on the real crate vs extracted OCaml model) + boolean oracles on real observations")],
             checks=checks,
             notes="fix: commits in /repo: 526450e (C20), f8d62d5 (C10), 5f7fbf8 (C13), 94c4994 (C11); known finding KF1 (C12, C07, C01; narrowly attributed); see known_findings.json and DESIGN.md",
             not_applicable=na)
    json.dump(m, open(os.path.join(VERIF, "MANIFEST.json"), "w"), indent=1)
    print("MANIFEST.json: %d checks" % len(checks))

if __name__ == "__main__":
    main()
