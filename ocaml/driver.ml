(* driver.ml — entry point: one sub-command per correspondence suite. *)
let () =
  match Array.to_list Sys.argv with
  | _ :: "plan-check" :: _ -> Plan_suite.run ()
  | _ :: "exec-check" :: _ -> Exec_suite.run ()
  | _ :: "world-check" :: _ -> World_suite.run ()
  | _ :: "sysdata-check" :: _ -> Sysdata_suite.run ()
  | _ :: "meta-check" :: _ -> Meta_suite.run ()
  | _ :: "parseq-check" :: _ -> Parseq_suite.run ()
  | _ :: "async-check" :: _ -> Async_suite.run ()
  | _ :: "pool-check" :: _ -> Pool_suite.run ()
  | _ :: "cells-check" :: _ -> Cells_suite.run ()
  | _ -> prerr_endline "usage: driver <suite>-check < lines"; exit 2
