(* sysdata_suite.ml — suite S4: system-data type expressions <-> M4 (SysData.v).
   Input lines: "sysdata case=<i> mask=<m> :: <sd>\t<observation>". *)
open Model
open Util

let n_cases = ref 0 and n_disagree = ref 0 and n_oracle = ref 0
let hist : (string, int) Hashtbl.t = Hashtbl.create 64
let bump k = Hashtbl.replace hist k (1 + try Hashtbl.find hist k with Not_found -> 0)
let samples : string list ref = ref []
let seen : (string, unit) Hashtbl.t = Hashtbl.create 4096
let nres = 6
let univ = List.init nres n_of_int

(* sd text: R<k>d R<k>p R<k>c W<k>d W<k>p W<k>c r<k> w<k> U P T(a,b,...) *)
let parse_sd (s : string) : sd =
  let n = String.length s in
  let pos = ref 0 in
  let rec item () : sd =
    let c = s.[!pos] in
    incr pos;
    match c with
    | 'U' -> SUnit
    | 'P' -> SPhantom
    | 'R' | 'W' ->
        let k = Char.code s.[!pos] - 48 in incr pos;
        let h = (match s.[!pos] with 'd' -> HDefault | 'c' -> HCustom | _ -> HPanic) in incr pos;
        if c = 'R' then SRead (n_of_int k, h) else SWrite (n_of_int k, h)
    | 'r' -> let k = Char.code s.[!pos] - 48 in incr pos; SOptRead (n_of_int k)
    | 'w' -> let k = Char.code s.[!pos] - 48 in incr pos; SOptWrite (n_of_int k)
    | 'T' ->
        incr pos; (* ( *)
        let items = ref [] in
        if s.[!pos] = ')' then incr pos
        else begin
          let continue = ref true in
          while !continue do
            items := item () :: !items;
            if !pos < n && s.[!pos] = ',' then incr pos
            else begin incr pos; continue := false end
          done
        end;
        STuple (List.rev !items)
    | _ -> failwith ("bad sd at " ^ string_of_int !pos ^ " in " ^ s)
  in
  item ()

let rec depth = function STuple l -> 1 + List.fold_left (fun a x -> max a (depth x)) 0 l | _ -> 0
let rec leaves_n = function STuple l -> List.fold_left (fun a x -> a + leaves_n x) 0 l | _ -> 1

let ids_str (l : n list) = if l = [] then "-" else String.concat "," (List.map (fun x -> string_of_int (int_of_n x)) l)
let classes_str (w : world) = String.concat "" (List.map (function None -> "-" | Some c -> string_of_int (int_of_n c)) (classes w univ))
let value_of ty = (n_of_int (int_of_n ty + 1), n_of_int (100 + int_of_n ty))
let dflt _ty = (N0, N0)

let check_line (line : string) : unit =
  match String.index_opt line '\t' with
  | None -> ()
  | Some tab when String.sub line (tab + 1) (String.length line - tab - 1) = "hang" ->
      (* the harness watchdog: reads()/writes()/setup()/fetch() of this type did not come back *)
      incr n_cases; incr n_oracle;
      Printf.printf "O hang L0\t%s\n" (String.sub line 0 tab)
  | Some tab ->
      let case = String.sub line 0 tab in
      let real_s = String.sub line (tab + 1) (String.length line - tab - 1) in
      let head, sd_s = match Str.bounded_split (Str.regexp_string " :: ") case 2 with [h; p] -> (h, p) | _ -> (case, "") in
      let param k = List.fold_left (fun acc t ->
          let pre = k ^ "=" in
          if String.length t > String.length pre && String.sub t 0 (String.length pre) = pre
          then String.sub t (String.length pre) (String.length t - String.length pre) else acc) "" (split_on ' ' head) in
      let mask = int_of_string (param "mask") in
      let d = parse_sd sd_s in
      incr n_cases;
      if List.length !samples < 5 && !n_cases mod 397 = 1 then samples := line :: !samples;
      let fields = List.filter_map (fun kv -> match String.index_opt kv '=' with
          | Some i -> Some (String.sub kv 0 i, String.sub kv (i + 1) (String.length kv - i - 1)) | None -> None) (split_on ';' real_s) in
      let get k = try List.assoc k fields with Not_found -> "" in
      let disagree field m r = incr n_disagree; Printf.printf "D %s L0 model=%s real=%s\t%s\n" field m r case in
      let oracle name = incr n_oracle; Printf.printf "O %s L0\t%s\n" name case in
      let present = List.filter (fun k -> mask land (1 lsl k) <> 0) (List.init nres (fun i -> i)) in
      let w0 = world_with (List.map n_of_int present) value_of in
      (* reads / writes *)
      let mr = ids_str (sd_reads d) and mw = ids_str (sd_writes d) in
      if get "reads" <> mr then disagree "reads" mr (get "reads");
      if get "writes" <> mw then disagree "writes" mw (get "writes");
      (* fetch *)
      let (w1, res) = sd_fetch d w0 in
      (match res with
       | Inl gs ->
           bump "fetch:ok";
           if get "fetch" <> "ok" then disagree "fetch" "ok" (get "fetch")
           else begin
             if get "alive" <> classes_str w1 then disagree "alive" (classes_str w1) (get "alive");
             let w2 = drop_guards gs w1 in
             if get "after" <> classes_str w2 then disagree "after" (classes_str w2) (get "after")
           end
       | Inr p ->
           let ms = (match p with PMissing -> "px" | PAlreadyBorrowed | PAlreadyMutBorrowed -> "pb" | _ -> "p?") in
           bump ("fetch:" ^ ms);
           if get "fetch" <> ms then disagree "fetch" ms (get "fetch");
           if get "after" <> classes_str w1 then disagree "after" (classes_str w1) (get "after"));
      (* setup *)
      let ws = sd_setup dflt d w0 in
      let vals = String.concat "," (List.map (fun k ->
          match probe ws [(n_of_int k, N0)] with
          | [Some ((_, _), p)] -> string_of_int (int_of_n p)
          | _ -> "-") (List.init nres (fun i -> i))) in
      if get "setup" <> vals then disagree "setup" vals (get "setup");
      if get "setupok" <> "1" then disagree "setupok" "1" (get "setupok");
      (* World::exec = setup, fetch, closure; the value is dropped when the closure returns or unwinds *)
      (let (we, rese) = sd_exec dflt d w0 in
       let vals_of w = String.concat "," (List.map (fun k ->
           match probe w [(n_of_int k, N0)] with
           | [Some ((_, _), p)] -> string_of_int (int_of_n p)
           | _ -> "-") (List.init nres (fun i -> i))) in
       let mexec, wfinal = (match rese with
           | Inl gs -> ("ok", drop_guards gs we)
           | Inr p -> ((match p with PMissing -> "px" | PAlreadyBorrowed | PAlreadyMutBorrowed -> "pb" | _ -> "p?"), we)) in
       if get "exec" <> "" then begin
         if get "exec" <> mexec then disagree "exec" mexec (get "exec");
         if get "execvals" <> vals_of wfinal then disagree "exec" (vals_of wfinal) (get "execvals");
         if get "execafter" <> classes_str wfinal then disagree "exec" (classes_str wfinal) (get "execafter");
         if get "execcalls" <> ids_str (sd_setup_calls d) then begin
           disagree "exec" (ids_str (sd_setup_calls d)) (get "execcalls");
           (* exec = setup (every member's handler, whatever the world holds), then fetch *)
           oracle "exec_runs_setup"
         end;
         (* the panicking closure: if the fetch succeeds our payload comes out, else the fetch's panic; same world *)
         let mp = if mexec = "ok" then "boom" else mexec in
         if get "execp" <> mp then disagree "exec" mp (get "execp");
         if get "execpvals" <> vals_of wfinal then disagree "exec" (vals_of wfinal) (get "execpvals");
         if get "execpafter" <> classes_str wfinal then disagree "exec" (classes_str wfinal) (get "execpafter");
         (* oracles on the real observation: nothing stays borrowed after exec, however it ended *)
         String.iter (fun c -> if c <> '0' && c <> '-' then oracle "exec_releases") (get "execafter");
         String.iter (fun c -> if c <> '0' && c <> '-' then oracle "exec_releases") (get "execpafter");
         if get "execp" = "returned" then oracle "exec_panic_propagates"
       end);
      (* ---- oracles on the REAL observation ---- *)
      (* C06: while the value lives, exactly the existing declared reads are shared, the existing declared writes
         exclusive, everything else unborrowed; afterwards everything is released *)
      let real_reads = if get "reads" = "-" then [] else List.map int_of_string (split_on ',' (get "reads")) in
      let real_writes = if get "writes" = "-" then [] else List.map int_of_string (split_on ',' (get "writes")) in
      if get "fetch" = "ok" then begin
        (* a value whose members need the same existing resource exclusively and once more (W/W or W/R inside the type)
           cannot hold exactly its declared borrows: the fetch has to panic *)
        List.iter (fun k ->
            let nw = List.length (List.filter (fun x -> x = k) real_writes) in
            if List.mem k present && (nw >= 2 || (nw >= 1 && List.mem k real_reads)) then oracle "conflicting_members_fetched") (List.init nres (fun i -> i));
        let alive = get "alive" in
        String.iteri (fun k c ->
            let want = if not (List.mem k present) then '-' else if List.mem k real_writes then '2' else if List.mem k real_reads then '1' else '0' in
            if c <> want then oracle "declared_equals_borrowed") alive
      end;
      (* C06: "and nothing else": the slots of the same types under another dynamic id stay unborrowed *)
      String.iter (fun c -> if c <> '0' && c <> '-' then oracle "declared_equals_borrowed") (get "dynalive");
      String.iteri (fun k c -> let want = if List.mem k present then '0' else '-' in if c <> want then oracle "released_after_drop") (get "after");
      (* C13: setup modifies no existing resource, creates only through default-providing accessors, is idempotent *)
      let rv = split_on ',' (get "setup") in
      List.iteri (fun k v ->
          if List.mem k present then (if v <> string_of_int (100 + k) then oracle "setup_keeps_existing")
          else if v <> "-" && v <> "0" then oracle "setup_default_value") rv;
      if get "again" <> "1" then oracle "setup_idempotent";
      (* C06: setup = composition of the members' setups: every user-written handler is called once per member, in
         member order, on the first and on every repeated setup, whatever the world already holds *)
      let mc = ids_str (sd_setup_calls d) in
      if get "calls" <> mc then begin disagree "setup-calls" mc (get "calls"); oracle "setup_composes" end;
      if get "calls2" <> mc then oracle "setup_composes";
      let key = sd_s in
      if not (Hashtbl.mem seen key) then begin
        Hashtbl.add seen key ();
        bump ("depth:" ^ string_of_int (depth d)); bump ("leaves:" ^ Plan_suite.bucket (leaves_n d))
      end;
      if Sys.getenv_opt "VERIF_HASHES" <> None && leaves_n d >= 2 then Printf.printf "H %s\n" (Digest.to_hex (Digest.string case))

let summary () =
  let h = Hashtbl.fold (fun k v acc -> Printf.sprintf "\"%s\":%d" (Plan_suite.json_escape k) v :: acc) hist [] in
  Printf.printf "SUMMARY {\"suite\":\"sysdata\",\"cases\":%d,\"disagreements\":%d,\"oracle_failures\":%d,\"hist\":{%s},\"samples\":[%s]}\n"
    !n_cases !n_disagree !n_oracle
    (String.concat "," (List.sort compare h))
    (String.concat "," (List.map (fun s -> "\"" ^ Plan_suite.json_escape s ^ "\"") (List.rev !samples)))

let run () =
  (try
     while true do
       let line = input_line stdin in
       (try check_line line
        with e ->
          incr n_disagree;
          Printf.printf "D driver-exception L0 model=%s real=?\t%s\n" (Plan_suite.json_escape (Printexc.to_string e))
            (match String.index_opt line '\t' with Some t -> String.sub line 0 t | None -> line))
     done
   with End_of_file -> ());
  summary ()
