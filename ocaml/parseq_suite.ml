(* parseq_suite.ml — suite S6: Par/Seq trees <-> M6 (ParSeq.v).
   Input lines: "parseq pool=.. mode=.. inside=.. :: <tree>\t<observation>". *)
open Model
open Util

let n_cases = ref 0 and n_disagree = ref 0 and n_oracle = ref 0
let hist : (string, int) Hashtbl.t = Hashtbl.create 64
let bump k = Hashtbl.replace hist k (1 + try Hashtbl.find hist k with Not_found -> 0)
let samples : string list ref = ref []
let seen : (string, unit) Hashtbl.t = Hashtbl.create 4096

let rec parse_tree (toks : string list) : tree * string list =
  match toks with
  | "L" :: tag :: r :: w :: rest -> (TLeaf (n_of_int (int_of_string tag), nlist_of_tok r, nlist_of_tok w), rest)
  | ("P" | "S") as k :: "{" :: rest ->
      let rec kids acc toks = match toks with
        | "}" :: rest -> (List.rev acc, rest)
        | _ -> let (c, rest) = parse_tree toks in kids (c :: acc) rest in
      let (l, rest') = kids [] rest in
      ((if k = "P" then TPar l else TSeq l), rest')
  | t :: _ -> failwith ("bad tree token " ^ t)
  | [] -> failwith "empty tree"

let rec depth = function TLeaf _ -> 0 | TPar l | TSeq l -> 1 + List.fold_left (fun a c -> max a (depth c)) 0 l
let rec has_par2 = function TLeaf _ -> false | TPar l -> List.length l >= 2 || List.exists has_par2 l | TSeq l -> List.exists has_par2 l

let parse_trace (s : string) : ev list * bool =
  if s = "-" || s = "" then ([], false) else
    let bp = ref false in
    let evs = List.filter_map (fun t ->
        let tag = n_of_int (int_of_string (String.sub t 1 (String.length t - 1))) in
        match t.[0] with 'F' -> Some (EF tag) | 'R' -> Some (ER tag) | _ -> bp := true; None) (split_on ',' s) in
    (evs, !bp)

let check_line (line : string) : unit =
  match String.index_opt line '\t' with
  | None -> ()
  | Some tab when String.sub line (tab + 1) (String.length line - tab - 1) = "hang" ->
      (* the harness watchdog: this case did not come back within its time budget (a dispatch that never returns) *)
      incr n_cases; incr n_oracle;
      Printf.printf "O hang L0\t%s\n" (String.sub line 0 tab)
  | Some tab ->
      let case = String.sub line 0 tab in
      let real_s = String.sub line (tab + 1) (String.length line - tab - 1) in
      let head, tree_s = match Str.bounded_split (Str.regexp_string " :: ") case 2 with [h; p] -> (h, p) | _ -> (case, "") in
      let param k = List.fold_left (fun acc t ->
          let pre = k ^ "=" in
          if String.length t > String.length pre && String.sub t 0 (String.length pre) = pre
          then String.sub t (String.length pre) (String.length t - String.length pre) else acc) "" (split_on ' ' head) in
      let (t, _) = parse_tree (List.filter (fun x -> x <> "") (split_on ' ' tree_s)) in
      incr n_cases;
      if List.length !samples < 5 && !n_cases mod 53 = 1 then samples := line :: !samples;
      let fields = List.filter_map (fun kv -> match String.index_opt kv '=' with
          | Some i -> Some (String.sub kv 0 i, String.sub kv (i + 1) (String.length kv - i - 1)) | None -> None) (split_on ';' real_s) in
      let get k = try List.assoc k fields with Not_found -> "" in
      let disagree field m r = incr n_disagree; Printf.printf "D %s L0 model=%s real=%s\t%s\n" field m r case in
      let oracle name = incr n_oracle; Printf.printf "O %s L0\t%s\n" name case in
      let ids l = if l = [] then "-" else String.concat "," (List.map (fun x -> string_of_int (int_of_n x)) l) in
      (* the debug check: the construction panics exactly when the model says a `with` conflicts *)
      let mp = build_panics t in
      let rp = String.length (get "build") >= 5 && String.sub (get "build") 0 5 = "panic" in
      bump (if mp then "build:rejected" else "build:ok");
      if mp <> rp then begin
        disagree "build" (if mp then "panic" else "ok") (get "build");
        (* against the REAL code: a conflicting child was accepted / a compatible one rejected *)
        oracle (if mp then "conflict_accepted" else "compatible_rejected")
      end;
      if not rp && not mp then begin
        if get "reads" <> ids (t_reads t) then disagree "reads" (ids (t_reads t)) (get "reads");
        if get "writes" <> ids (t_writes t) then disagree "writes" (ids (t_writes t)) (get "writes");
        (* C16: what a node reports is the UNION of its leaves' accesses (as sets: order and repeats do not matter) *)
        (let set s = List.sort_uniq compare (if s = "-" || s = "" then [] else split_on ',' s) in
         if set (get "reads") <> set (ids (t_reads t)) || set (get "writes") <> set (ids (t_writes t)) then oracle "access_union");
        if get "setup" <> ids (t_leaves t) then begin
          disagree "setup" (ids (t_leaves t)) (get "setup");
          let got = List.sort compare (if get "setup" = "-" then [] else List.map int_of_string (split_on ',' (get "setup"))) in
          if got <> List.sort compare (List.map int_of_n (t_leaves t)) then oracle "setup_reaches_every_leaf"
        end;
        (* set up again, for another world: every leaf once more *)
        if get "setup2" <> "" && get "setup2" <> ids (t_leaves t) then begin
          disagree "setup" (ids (t_leaves t)) (get "setup2");
          let got = List.sort compare (if get "setup2" = "-" then [] else List.map int_of_string (split_on ',' (get "setup2"))) in
          if got <> List.sort compare (List.map int_of_n (t_leaves t)) then oracle "setup_reaches_every_leaf"
        end;
        let (tr, bp) = parse_trace (get "T") in
        if bp || get "ok" <> "1" then oracle "unexpected_panic";
        if not (tree_accept t tr) then disagree "accept" "in-trace-set" "not-accepted";
        if not (o_once (t_leaves t) tr) then oracle "once";
        if not (order_ok t tr) then oracle "seq_order";
        (* two dispatches: every leaf ran twice *)
        let runs = if get "runs" = "" then [] else List.map (fun kv -> match split_on ':' kv with [a; b] -> (int_of_string a, int_of_string b) | _ -> (-1, -1)) (split_on ',' (get "runs")) in
        if get "ok2" <> "1" || List.exists (fun (_, n) -> n <> 2) runs || List.length runs <> List.length (t_leaves t) then oracle "run_counts";
        if get "overlapped" = "1" then bump "par-children-overlapped" else if get "overlapped" = "0" then bump "par-children-rendezvous-timeout"
      end;
      let key = tree_s in
      if not (Hashtbl.mem seen key) then begin
        Hashtbl.add seen key ();
        bump ("depth:" ^ string_of_int (depth t)); bump ("leaves:" ^ Plan_suite.bucket (List.length (t_leaves t)));
        bump ("pool:" ^ param "pool"); bump ("inside:" ^ param "inside");
        if List.length (t_leaves t) >= 2 && Sys.getenv_opt "VERIF_HASHES" <> None then
          Printf.printf "H %s\n" (Digest.to_hex (Digest.string (head ^ key)))
      end

let summary () =
  let h = Hashtbl.fold (fun k v acc -> Printf.sprintf "\"%s\":%d" (Plan_suite.json_escape k) v :: acc) hist [] in
  Printf.printf "SUMMARY {\"suite\":\"parseq\",\"cases\":%d,\"disagreements\":%d,\"oracle_failures\":%d,\"hist\":{%s},\"samples\":[%s]}\n"
    !n_cases !n_disagree !n_oracle
    (String.concat "," (List.sort compare h))
    (String.concat "," (List.map (fun s -> "\"" ^ Plan_suite.json_escape s ^ "\"") (List.rev !samples)))

let run () =
  (try
     while true do
       let line = input_line stdin in
       (try check_line line
        with e ->
          incr n_disagree;
          Printf.printf "D driver-exception L0 model=%s real=?\t%s\n" (Plan_suite.json_escape (Printexc.to_string e))
            (match String.index_opt line '\t' with Some t -> String.sub line 0 t | None -> line))
     done
   with End_of_file -> ());
  summary ()
