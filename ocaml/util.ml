(* util.ml — conversions between OCaml ints/strings and the extracted inductive numbers,
   token helpers.  Part of the trusted correspondence machinery (no model logic here). *)
open Model

let rec pos_of_int n =
  if n <= 1 then XH
  else if n land 1 = 0 then XO (pos_of_int (n lsr 1))
  else XI (pos_of_int (n lsr 1))
let n_of_int n = if n <= 0 then N0 else Npos (pos_of_int n)
let rec int_of_pos = function
  | XH -> 1 | XO p -> 2 * int_of_pos p | XI p -> 2 * int_of_pos p + 1
let int_of_n = function N0 -> 0 | Npos p -> int_of_pos p
let z_of_int n =
  if n = 0 then Z0 else if n > 0 then Zpos (pos_of_int n) else Zneg (pos_of_int (-n))
let int_of_z = function Z0 -> 0 | Zpos p -> int_of_pos p | Zneg p -> - (int_of_pos p)
let nat_of_int n =
  let rec go acc n = if n <= 0 then acc else go (S acc) (n - 1) in go O n
let int_of_nat n =
  let rec go acc = function O -> acc | S m -> go (acc + 1) m in go 0 n

let split_on c s = if s = "" then [] else String.split_on_char c s

let hex_digit c =
  match c with
  | '0' .. '9' -> Char.code c - 48
  | 'a' .. 'f' -> Char.code c - 87
  | 'A' .. 'F' -> Char.code c - 55
  | _ -> failwith ("bad hex digit in " ^ String.make 1 c)

(* "x6162" -> [97;98] as list N ; "x" -> [] *)
let bytes_of_hex (h : string) : n list =
  let len = String.length h in
  let rec go i acc =
    if i + 1 >= len + 0 && i >= len then List.rev acc
    else if i + 1 >= len then failwith "odd hex"
    else go (i + 2) (n_of_int (16 * hex_digit h.[i] + hex_digit h.[i + 1]) :: acc)
  in
  go 0 []

let name_of_tok (t : string) : n list =
  if String.length t = 0 || t.[0] <> 'x' then failwith ("bad name token " ^ t)
  else bytes_of_hex (String.sub t 1 (String.length t - 1))

let hex_of_bytes (l : n list) : string =
  let b = Buffer.create 64 in
  List.iter (fun x -> Buffer.add_string b (Printf.sprintf "%02x" (int_of_n x))) l;
  Buffer.contents b

let tok_of_name (l : n list) : string = "x" ^ hex_of_bytes l

let list_of_tok (f : string -> 'a) (t : string) : 'a list =
  if t = "-" then [] else List.map f (split_on ',' t)

let nlist_of_tok t = list_of_tok (fun s -> n_of_int (int_of_string s)) t

let tok_of_ints (l : int list) : string =
  if l = [] then "-" else String.concat "," (List.map string_of_int l)

let err_to_string = function
  | ENoSuch nm -> "nosuch:" ^ tok_of_name nm
  | EDup nm -> "dup:" ^ tok_of_name nm
  | ECapacity -> "other:capacity"
  | EOverflow -> "other:overflow"
  | EIndex -> "other:index"
  | EUnwrapNone -> "other:unwrap"
  | EUnreachable -> "other:unreachable"
