(* plan_suite.ml — suite S1: planner <-> M1.
   Input lines:  "plan <params> :: <program tokens>\t<real observation>"
   For every line: recompute the model observation from the program, compare it field by
   field with the real one, and evaluate the property oracles (extracted from PlanObs.v)
   on the REAL observation. *)
open Model
open Util

(* ---------- program parsing ---------- *)
let rec parse_regs (toks : string list) : reg list * string list =
  match toks with
  | [] -> ([], [])
  | "}" :: rest -> ([], rest)
  | "|" :: rest ->
      let rs, rest' = parse_regs rest in
      (RBarrier :: rs, rest')
  | "T" :: tag :: _reads :: _writes :: rest ->
      let rs, rest' = parse_regs rest in
      (RTL (n_of_int (int_of_string tag)) :: rs, rest')
  | "S" :: tag :: nm :: deps :: reads :: writes :: time :: _kind :: rest ->
      let r =
        RSys (n_of_int (int_of_string tag), name_of_tok nm, list_of_tok name_of_tok deps,
              nlist_of_tok reads, nlist_of_tok writes, z_of_int (int_of_string time)) in
      let rs, rest' = parse_regs rest in
      (r :: rs, rest')
  | "B" :: tag :: nm :: deps :: cr :: cw :: time :: count :: _ck :: "{" :: rest ->
      let inner, rest' = parse_regs rest in
      let r =
        RBatch (n_of_int (int_of_string tag), name_of_tok nm, list_of_tok name_of_tok deps,
                nlist_of_tok cr, nlist_of_tok cw, z_of_int (int_of_string time),
                n_of_int (int_of_string count), inner) in
      let rs, rest'' = parse_regs rest' in
      (r :: rs, rest'')
  | t :: _ -> failwith ("bad program token: " ^ t)

let parse_program (s : string) : reg list =
  let toks = List.filter (fun t -> t <> "") (String.split_on_char ' ' s) in
  let rs, rest = parse_regs toks in
  if rest <> [] then failwith "trailing tokens in program";
  rs

(* ---------- observation = calls, err, levels ---------- *)
type obs = { calls : int; err : string; errs : string; pardelta : string; levels : (int * (string * string) list) list }

let shape_to_string (sh : int list list) : string =
  if sh = [] then "-"
  else String.concat "/" (List.map (fun st -> String.concat "." (List.map string_of_int st)) sh)

let shape_of_string (s : string) : int list list =
  if s = "-" then []
  else List.map (fun st -> List.map int_of_string (split_on '.' st)) (split_on '/' s)

let model_level (tag : int) (prog : reg list) : (int * (string * string) list) option =
  match plan prog with
  | Err _ -> None
  | Ok b ->
      let lay = layout_tags b in
      let order = List.map int_of_n (List.concat (List.concat lay)) in
      let sh = List.map (List.map int_of_nat) (shape b) in
      Some (tag,
            [ ("print", hex_of_bytes (print_builder b));
              ("shape", shape_to_string sh);
              ("tl", string_of_int (List.length (b_tl b)));
              ("maxthr", string_of_int (int_of_nat (max_threads b)));
              ("order", tok_of_ints order);
              ("tlorder", tok_of_ints (List.map int_of_n (b_tl b)));
              ("sendable", if sendable b then "1" else "0") ])

(* recovery mode (rec=1): rejected registrations are caught and the builder is used on *)
let builder_fields (b : builder) : (string * string) list =
  let lay = layout_tags b in
  let order = List.map int_of_n (List.concat (List.concat lay)) in
  let sh = List.map (List.map int_of_nat) (shape b) in
  [ ("print", hex_of_bytes (print_builder b));
    ("shape", shape_to_string sh);
    ("tl", string_of_int (List.length (b_tl b)));
    ("maxthr", string_of_int (int_of_nat (max_threads b)));
    ("order", tok_of_ints order);
    ("tlorder", tok_of_ints (List.map int_of_n (b_tl b)));
    ("sendable", if sendable b then "1" else "0") ]

let model_obs_rec (regs : reg list) : obs =
  let es = rec_errs regs in
  let lv = levels (accepted regs) in
  { calls = int_of_nat (rec_calls regs); err = "none"; pardelta = "";
    errs = (if es = [] then "-" else String.concat "," (List.map (fun (i, e) -> Printf.sprintf "%d@%s" (int_of_nat i) (err_to_string e)) es));
    levels = List.map (fun (t, _) -> (int_of_n t, builder_fields (plan_rec (level_prog regs t)))) lv }

let model_obs (regs : reg list) : obs =
  match plan regs with
  | Err e ->
      let idx = match err_index_regs regs empty_builder with Some i -> int_of_nat i | None -> -1 in
      { calls = idx; err = err_to_string e; errs = ""; pardelta = ""; levels = [] }
  | Ok _ ->
      let lv = levels regs in
      { calls = int_of_nat (calls_regs regs); err = "none"; errs = ""; pardelta = "";
        levels = List.filter_map (fun (t, prog) -> model_level (int_of_n t) prog) lv }

(* "calls=3;err=none;L0{print=..;shape=..};L5{...};" *)
let parse_obs (s : string) : obs =
  let len = String.length s in
  let calls = ref (-1) and err = ref "?" and errs = ref "" and pardelta = ref "" and levels = ref [] in
  let i = ref 0 in
  while !i < len do
    if s.[!i] = 'L' then begin
      let ob = String.index_from s !i '{' in
      let cb = String.index_from s ob '}' in
      let tag = int_of_string (String.sub s (!i + 1) (ob - !i - 1)) in
      let body = String.sub s (ob + 1) (cb - ob - 1) in
      let fields =
        List.filter_map
          (fun kv ->
            match String.index_opt kv '=' with
            | Some k -> Some (String.sub kv 0 k, String.sub kv (k + 1) (String.length kv - k - 1))
            | None -> None)
          (split_on ';' body) in
      levels := (tag, fields) :: !levels;
      i := cb + 1;
      if !i < len && s.[!i] = ';' then incr i
    end else begin
      let e = try String.index_from s !i ';' with Not_found -> len in
      let kv = String.sub s !i (e - !i) in
      (match String.index_opt kv '=' with
       | Some k ->
           let key = String.sub kv 0 k and v = String.sub kv (k + 1) (String.length kv - k - 1) in
           if key = "calls" then calls := int_of_string v else if key = "err" then err := v else if key = "errs" then errs := v else if key = "pardelta" then pardelta := v
       | None -> ());
      i := e + 1
    end
  done;
  { calls = !calls; err = !err; errs = !errs; pardelta = !pardelta; levels = List.rev !levels }

(* ---------- statistics ---------- *)
let n_cases = ref 0
let seen : (string, unit) Hashtbl.t = Hashtbl.create 100003
let n_distinct = ref 0
let n_nontrivial = ref 0
let hist : (string, int) Hashtbl.t = Hashtbl.create 64
let bump k = Hashtbl.replace hist k (1 + try Hashtbl.find hist k with Not_found -> 0)
let n_disagree = ref 0
let n_oracle = ref 0
let samples : string list ref = ref []

let bucket n =
  if n <= 3 then string_of_int n else if n <= 7 then "4-7" else if n <= 15 then "8-15"
  else if n <= 31 then "16-31" else if n <= 63 then "32-63" else if n <= 127 then "64-127" else "128+"

let chunk (order : int list) (sh : int list list) : int list list list =
  let rest = ref order in
  List.map (fun st ->
      List.map (fun k ->
          let rec take k acc = if k = 0 then List.rev acc else
              match !rest with [] -> List.rev acc | x :: r -> rest := r; take (k - 1) (x :: acc) in
          take k []) st) sh

let rec count_regs (rs : reg list) : int * int * int * int * int =
  (* systems, batches, tl, barriers, with-deps *)
  List.fold_left (fun (s, b, t, br, d) r ->
      match r with
      | RSys (_, _, deps, _, _, _) -> (s + 1, b, t, br, if deps <> [] then d + 1 else d)
      | RBatch (_, _, deps, _, _, _, _, inner) ->
          let (s', b', t', br', d') = count_regs inner in
          (s + 1 + s', b + 1 + b', t + t', br + br', d + d' + (if deps <> [] then 1 else 0))
      | RTL _ -> (s, b, t + 1, br, d)
      | RBarrier -> (s, b, t, br + 1, d)) (0, 0, 0, 0, 0) rs

let last_meta : (string * (int * (string * string) list) list * string * int * string) option ref = ref None

let check_line (line : string) : unit =
  match String.index_opt line '\t' with
  | None -> ()
  | Some tab ->
      let case = String.sub line 0 tab in
      let real_s = String.sub line (tab + 1) (String.length line - tab - 1) in
      let prog_s =
        match Str.bounded_split (Str.regexp_string " :: ") case 2 with
        | [_; p] -> p
        | [_] -> ""
        | _ -> failwith "bad case line" in
      let regs = parse_program prog_s in
      let real = parse_obs real_s in
      let recmode = (match Str.bounded_split (Str.regexp_string " :: ") case 2 with h :: _ -> List.mem "rec=1" (split_on ' ' h) | [] -> false) in
      let model = if recmode then model_obs_rec regs else model_obs regs in
      incr n_cases;
      let fresh = not (Hashtbl.mem seen prog_s) in
      if fresh then begin Hashtbl.add seen prog_s (); incr n_distinct end;
      if List.length !samples < 5 && (!n_cases mod 997 = 1) then samples := line :: !samples;
      let disagree field lvl m r =
        incr n_disagree;
        Printf.printf "D %s L%d model=%s real=%s\t%s\n" field lvl m r case in
      let oracle name lvl =
        incr n_oracle;
        Printf.printf "O %s L%d\t%s\n" name lvl case in
      (* --- C19: metamorphic pairs: the REAL plan of the variant (systems renamed, resources relabelled injectively across
         types and dynamic ids, access lists permuted / duplicated) must equal the REAL plan of the base program --- *)
      (let head = match Str.bounded_split (Str.regexp_string " :: ") case 2 with h :: _ -> h | [] -> "" in
       let meta = List.fold_left (fun acc t -> if String.length t > 5 && String.sub t 0 5 = "meta=" then String.sub t 5 (String.length t - 5) else acc) "" (split_on ' ' head) in
       if meta <> "" then begin
         let k = String.sub meta 0 (String.length meta - 1) and side = meta.[String.length meta - 1] in
         let plan_of (o : obs) = List.map (fun (tag, rf) ->
             (tag, List.filter (fun (f, _) -> List.mem f ["shape"; "order"; "tlorder"; "maxthr"; "tl"]) rf)) o.levels in
         if side = 'a' then last_meta := Some (k, plan_of real, real.err, real.calls, case)
         else begin
           bump "metamorphic-pairs";
           match !last_meta with
           | Some (k0, pl, err0, calls0, case_a) when k0 = k ->
               if pl <> plan_of real || calls0 <> real.calls || (err0 = "none") <> (real.err = "none") then begin
                 incr n_oracle;
                 (* the replay is the PAIR *)
                 Printf.printf "O meta_same_plan L0\t%s ||| %s\n" case_a case
               end
           | _ -> ()
         end
       end);
      (* --- correspondence --- *)
      if model.calls <> real.calls then disagree "calls" 0 (string_of_int model.calls) (string_of_int real.calls);
      if model.err <> real.err then disagree "err" 0 model.err real.err;
      if model.errs <> real.errs then disagree "errs" 0 model.errs real.errs;
      List.iter (fun (tag, mf) ->
          match List.assoc_opt tag real.levels with
          | None -> disagree "level-missing" tag "present" "absent"
          | Some rf ->
              List.iter (fun (k, mv) ->
                  let rv = try List.assoc k rf with Not_found -> "<missing>" in
                  if rv <> "na" && mv <> rv then disagree k tag mv rv) mf) model.levels;
      List.iter (fun (tag, _) ->
          (* (recovery mode: the inner level of a rejected batch was built and thrown away: no claim about it) *)
          if not recmode && not (List.mem_assoc tag model.levels) then disagree "level-extra" tag "absent" "present")
        real.levels;
      (* --- oracles on the real observation --- *)
      if recmode then (if real.err <> "none" then oracle "errors_exact" 0) else
      (match spec_first_error regs with
       | None ->
           if real.err <> "none" then oracle "errors_exact" 0
           else if real.calls <> int_of_nat (calls_regs regs) then oracle "errors_exact" 0
       | Some (idx, e) ->
           if real.err <> err_to_string e || real.calls <> int_of_nat idx then oracle "errors_exact" 0);
      (* recovery mode: the specification of a level is the program of its ACCEPTED registrations *)
      (* C04: one more dispatch through the parallel entry point ran every top-level system exactly once more *)
      if real.pardelta <> "" && real.pardelta <> "-" then oracle "par_once" 0;
      let progs = if recmode then List.map (fun (t, _) -> (int_of_n t, accepted (level_prog regs t))) (levels (accepted regs))
                  else List.map (fun (t, p) -> (int_of_n t, p)) (levels regs) in
      let max_group = ref 0 and n_stages = ref 0 in
      List.iter (fun (tag, rf) ->
          match List.assoc_opt tag progs with
          | None -> if not recmode then oracle "unknown-level" tag
          | Some _ when (try List.assoc "shape" rf = "na" with Not_found -> true) ->
              (* inner level of a MultiDispatcher batch: only the printed text is observable *)
              ()
          | Some prog ->
              let get k = try List.assoc k rf with Not_found -> "" in
              let sh = (try shape_of_string (get "shape") with _ -> []) in
              let order = (try list_of_tok int_of_string (get "order") with _ -> []) in
              let lay_i = chunk order sh in
              List.iter (fun st -> List.iter (fun g -> max_group := max !max_group (List.length g)) st) lay_i;
              n_stages := max !n_stages (List.length lay_i);
              let lay = List.map (List.map (List.map n_of_int)) lay_i in
              let shape_total = List.fold_left (fun a st -> List.fold_left (+) a st) 0 sh in
              if shape_total <> List.length order then oracle "exec_perm(shape-sum)" tag;
              if not (o_exec_perm prog lay) then oracle "exec_perm" tag;
              if not (o_isolated prog lay) then oracle "isolated" tag;
              if not (o_deps_ordered prog lay) then oracle "deps_ordered" tag;
              if not (o_barriers prog lay) then oracle "barriers" tag;
              (* (skip_justified recomputes SystemIds from positions in its program: ids have gaps after a rejected call.
                  print_matches is evaluated against the program AS WRITTEN: a rejected call consumes the id of its position,
                  so the placeholder of an unnamed system is its position among all add/add_batch calls of its level) *)
              if not recmode && not (o_skip_justified prog lay) then oracle "skip_justified" tag;
              (match int_of_string_opt (get "maxthr") with
               | Some m -> if not (o_max_threads lay (nat_of_int m)) then oracle "max_threads" tag
               | None -> if get "maxthr" <> "na" then oracle "max_threads" tag);
              let pr = get "print" in
              if String.length pr >= 5 && String.sub pr 0 5 = "PANIC" then oracle "print_total" tag
              else if not (o_print (if recmode then level_prog regs (n_of_int tag) else prog) lay (bytes_of_hex pr)) then oracle "print_matches" tag;
              let tlorder = (try list_of_tok int_of_string (get "tlorder") with _ -> []) in
              if List.map n_of_int tlorder <> tl_tags prog then oracle "tl_order" tag;
              if get "sendable" <> "na" && not (o_sendable prog (get "sendable" = "1")) then oracle "sendable" tag;
              if get "sendable" = "1" && (get "sendshape" <> get "shape" || get "sendorder" <> get "order") then
                oracle "sendable_preserves_plan" tag;
              if tag = 0 && get "status" <> "ok" then oracle ("status:" ^ get "status") tag)
        real.levels;
      (* --- statistics --- *)
      if fresh then begin
        let (s, b, t, br, d) = count_regs regs in
        let nontrivial = !max_group >= 2 || !n_stages >= 2 || b > 0 || d > 0 || real.err <> "none" in
        if nontrivial then begin
          incr n_nontrivial;
          if Sys.getenv_opt "VERIF_HASHES" <> None then
            Printf.printf "H %s\n" (Digest.to_hex (Digest.string prog_s))
        end;
        bump ("systems:" ^ bucket s);
        bump ("stages:" ^ bucket !n_stages);
        bump ("maxgroup:" ^ string_of_int !max_group);
        if recmode then begin bump "recover"; if real.errs <> "-" && real.errs <> "" then bump "recover:with-rejected-calls" end;
        if b > 0 then bump "has-batch";
        if t > 0 then bump "has-thread-local";
        if br > 0 then bump "has-barrier";
        if d > 0 then bump "has-deps";
        if real.err <> "none" then
          bump ("err:" ^ (match String.index_opt real.err ':' with Some k -> String.sub real.err 0 k | None -> real.err))
      end

let json_escape s =
  let b = Buffer.create (String.length s + 8) in
  String.iter (fun c -> match c with
      | '"' -> Buffer.add_string b "\\\"" | '\\' -> Buffer.add_string b "\\\\"
      | '\t' -> Buffer.add_string b "\\t" | '\n' -> Buffer.add_string b "\\n"
      | c -> Buffer.add_char b c) s;
  Buffer.contents b

let summary () =
  let h = Hashtbl.fold (fun k v acc -> Printf.sprintf "\"%s\":%d" (json_escape k) v :: acc) hist [] in
  Printf.printf "SUMMARY {\"suite\":\"plan\",\"cases\":%d,\"distinct\":%d,\"distinct_nontrivial\":%d,\"disagreements\":%d,\"oracle_failures\":%d,\"hist\":{%s},\"samples\":[%s]}\n"
    !n_cases !n_distinct !n_nontrivial !n_disagree !n_oracle
    (String.concat "," (List.sort compare h))
    (String.concat "," (List.map (fun s -> "\"" ^ json_escape s ^ "\"") (List.rev !samples)))

let run () =
  (try
     while true do
       let line = input_line stdin in
       (try check_line line
        with e ->
          incr n_disagree;
          Printf.printf "D driver-exception L0 model=%s real=?\t%s\n" (json_escape (Printexc.to_string e))
            (match String.index_opt line '\t' with Some t -> String.sub line 0 t | None -> line))
     done
   with End_of_file -> ());
  summary ()
