(* meta_suite.ml — suite S5: MetaTable <-> M5 (Meta.v).
   Input lines: "meta :: <ops>\t<outcome of every op>". *)
open Model
open Util

let n_cases = ref 0 and n_steps = ref 0 and n_disagree = ref 0 and n_oracle = ref 0
let hist : (string, int) Hashtbl.t = Hashtbl.create 64
let bump k = Hashtbl.replace hist k (1 + try Hashtbl.find hist k with Not_found -> 0)
let samples : string list ref = ref []
let seen : (string, unit) Hashtbl.t = Hashtbl.create 10007
let bad = [n_of_int 6; n_of_int 7; n_of_int 9; n_of_int 10]

let parse_op (s : string) : mop option =
  let t = List.filter (fun x -> x <> "") (split_on ' ' s) in
  let n i = n_of_int (int_of_string (List.nth t i)) in
  match t with
  | [] -> None
  | "R" :: _ -> Some (MReg (n 1))
  | "I" :: _ -> Some (MIns (n 1, (n 2, n 3)))
  | "X" :: _ -> Some (MRem (n 1))
  | "G" :: _ -> Some (MGet (n 1))
  | "M" :: _ -> Some (MGetMut (n 1))
  | "It" :: _ -> Some MIter
  | "Im" :: _ -> Some MIterMut
  | "Hs" :: _ -> Some (MHold (n 1, false))
  | "Hx" :: _ -> Some (MHold (n 1, true))
  | "Dh" :: _ -> Some MDropHolds
  | x :: _ -> failwith ("bad meta op " ^ x)

let pk = function
  | PMissing -> "px" | PAlreadyBorrowed | PAlreadyMutBorrowed -> "pb" | PWrongType -> "pw" | PNotEnabled -> "pe" | PBadGuard -> "pg"

let out_str (o : mout) : string =
  match o with
  | MU -> "u" | MN -> "n"
  | MV (s, p) -> Printf.sprintf "v%d.%d" (int_of_n s) (int_of_n p)
  | MO (vt, (s, p)) -> Printf.sprintf "o%d:%d.%d:1" (int_of_n vt) (int_of_n s) (int_of_n p)
  | ML [] -> "l-"
  | ML l -> "l" ^ String.concat "," (List.map (fun ((ty, vt), p) -> Printf.sprintf "%d/%d/%d" (int_of_n ty) (int_of_n vt) (int_of_n p)) l)
  | MP k -> pk k | MPI -> "pi" | MPC -> "pc"

let check_line (line : string) : unit =
  match String.index_opt line '\t' with
  | None -> ()
  | Some tab ->
      let case = String.sub line 0 tab in
      let real_s = String.sub line (tab + 1) (String.length line - tab - 1) in
      let ops_s = match Str.bounded_split (Str.regexp_string " :: ") case 2 with [_; p] -> p | _ -> "" in
      let ops = List.filter_map parse_op (split_on ';' ops_s) in
      let reals = List.map String.trim (split_on ';' real_s) in
      incr n_cases;
      if List.length !samples < 4 && !n_cases mod 97 = 1 then
        samples := (if String.length line > 900 then String.sub line 0 900 ^ "..." else line) :: !samples;
      let disagree field i m r = incr n_disagree; Printf.printf "D %s L%d model=%s real=%s\t%s\n" field i m r case in
      let oracle name i = incr n_oracle; Printf.printf "O %s L%d\t%s\n" name i case in
      let st = ref empty_mstate in
      let registered = ref [] (* register calls so far, in order, with repeats *) in
      let present : (int, unit) Hashtbl.t = Hashtbl.create 8 in
      let holds : (int * bool) list ref = ref [] in
      let stop = ref false in
      List.iteri (fun i o ->
          if not !stop then begin
            incr n_steps;
            let (s1, out) = mstep bad !st o in
            st := s1;
            let m = out_str out in
            let r_full = try List.nth reals i with _ -> "?" in
            (* "l<items>#n1=..#s1=.." : the part behind '#' are further observations of the same iteration (iterator protocol) *)
            let r, extras = (match String.index_opt r_full '#' with
                | Some j -> (String.sub r_full 0 j, split_on '#' (String.sub r_full (j + 1) (String.length r_full - j - 1)))
                | None -> (r_full, [])) in
            (* IterMut: the first item alone ("f="): the first registered type that is present - whatever is borrowed further
               down the table; a conflict or a wrong cast of THAT resource panics *)
            (match o with
             | MIterMut ->
                 List.iter (fun e -> match split_on '=' e with
                     | ["f"; v] ->
                         let reach = List.filter (fun k -> Hashtbl.mem present k) (List.map int_of_n (dedup_first [] !registered)) in
                         let want = (match reach with
                             | [] -> "-"
                             | k :: _ -> if List.exists (fun (h, _) -> h = k) !holds then "pb" else if List.mem (n_of_int k) bad then "pc" else string_of_int k) in
                         if v <> want then (incr n_oracle; Printf.printf "O iter_first_item L%d\t%s\n" i case)
                     | _ -> ()) extras
             | _ -> ());
            let extras = List.filter (fun e -> String.length e < 2 || String.sub e 0 2 <> "f=") extras in
            (if extras <> [] && String.length r > 0 && r.[0] = 'l' then begin
               let tags = if r = "l-" then [] else List.map (fun it -> match split_on '/' it with [_; b; _] -> b | _ -> "?") (split_on ',' (String.sub r 1 (String.length r - 1))) in
               let nth k = (try List.nth tags k with _ -> "-") in
               let rec drop k l = if k = 0 then l else (match l with [] -> [] | _ :: t -> drop (k - 1) t) in
               let rec every2 l = (match l with [] -> [] | x :: t -> x :: every2 (drop 1 t)) in
               let show l = if l = [] then "-" else String.concat "." l in
               List.iter (fun e -> match split_on '=' e with
                   | ["n1"; v] -> if v <> nth 1 then (incr n_oracle; Printf.printf "O iter_protocol L%d\t%s\n" i case)
                   | ["n2"; v] -> if v <> nth 2 then (incr n_oracle; Printf.printf "O iter_protocol L%d\t%s\n" i case)
                   | ["s1"; v] -> if v <> show (drop 1 tags) then (incr n_oracle; Printf.printf "O iter_protocol L%d\t%s\n" i case)
                   | ["st"; v] -> if v <> show (every2 tags) then (incr n_oracle; Printf.printf "O iter_protocol L%d\t%s\n" i case)
                   | _ -> (incr n_oracle; Printf.printf "O iter_protocol L%d\t%s\n" i case)) extras
             end);
            bump ("outcome:" ^ (if String.length m > 0 then String.sub m 0 1 else "?") ^ (if String.length m > 1 && m.[0] = 'p' then String.sub m 1 1 else ""));
            if m <> r then begin disagree "outcome" i m r; stop := true end;
            (* ---- oracles on the REAL outcome, from the history alone ---- *)
            (match o with
             | MReg ty -> registered := !registered @ [ty]
             | MHold (ty, excl) -> if r = "u" then holds := (int_of_n ty, excl) :: !holds
             | MDropHolds -> holds := []
             | MIns (ty, _) -> if r = "u" then Hashtbl.replace present (int_of_n ty) ()
             | MRem ty -> if String.length r > 0 && r.[0] = 'v' then Hashtbl.remove present (int_of_n ty)
             | MGet ty | MGetMut ty ->
                 let k = int_of_n ty in
                 let reg = List.mem ty !registered in
                 if String.length r > 0 && r.[0] = 'o' then begin
                   (* converts exactly when registered; own vtable; same address *)
                   if not reg then oracle "get_iff_registered" i;
                   (match split_on ':' (String.sub r 1 (String.length r - 1)) with
                    | [vt; _; a] -> if int_of_string vt <> k then oracle "own_vtable" i; if a <> "1" then oracle "same_address" i
                    | _ -> oracle "own_vtable" i)
                 end else if r = "n" then (if reg then oracle "get_iff_registered" i)
                 else if r = "pc" then (if not (List.mem ty bad) then oracle "bad_cast_only" i)
             | MIter | MIterMut ->
                 (* C08: the iterators borrow like any fetch: a live conflicting guard on a resource they reach makes them
                    panic (never skip it, never hand out an aliasing guard); without a conflict they do not panic *)
                 let reach = List.filter (fun k -> Hashtbl.mem present k) (List.map int_of_n (dedup_first [] !registered)) in
                 let conflict = List.exists (fun (k, excl) -> List.mem k reach && (excl || o = MIterMut)) !holds in
                 let bad_cast = List.exists (fun k -> List.mem (n_of_int k) bad) reach in
                 if conflict && not bad_cast && r <> "pb" then oracle "iter_borrow_discipline" i;
                 if (not conflict) && r = "pb" then oracle "iter_borrow_discipline" i;
                 if String.length r > 0 && r.[0] = 'l' then begin
                   let items = if r = "l-" then [] else List.map (fun it -> match split_on '/' it with
                       | [a; b; _] -> (int_of_string a, int_of_string b) | _ -> (-1, -1)) (split_on ',' (String.sub r 1 (String.length r - 1))) in
                   let want = List.filter (fun k -> Hashtbl.mem present k) (List.map int_of_n (dedup_first [] !registered)) in
                   if List.map fst items <> want then oracle "iter_registered_present_in_first_registration_order" i;
                   List.iter (fun (slot, vt) -> if slot <> vt then oracle "iter_own_vtable" i) items
                 end
             | _ -> ())
          end) ops;
      let key = ops_s in
      if not (Hashtbl.mem seen key) then begin
        Hashtbl.add seen key ();
        bump ("length:" ^ Plan_suite.bucket (List.length ops));
        if List.length ops >= 2 && Sys.getenv_opt "VERIF_HASHES" <> None then
          Printf.printf "H %s\n" (Digest.to_hex (Digest.string key))
      end

let summary () =
  let h = Hashtbl.fold (fun k v acc -> Printf.sprintf "\"%s\":%d" (Plan_suite.json_escape k) v :: acc) hist [] in
  Printf.printf "SUMMARY {\"suite\":\"meta\",\"cases\":%d,\"steps\":%d,\"disagreements\":%d,\"oracle_failures\":%d,\"hist\":{%s},\"samples\":[%s]}\n"
    !n_cases !n_steps !n_disagree !n_oracle
    (String.concat "," (List.sort compare h))
    (String.concat "," (List.map (fun s -> "\"" ^ Plan_suite.json_escape s ^ "\"") (List.rev !samples)))

let run () =
  (try
     while true do
       let line = input_line stdin in
       (try check_line line
        with e ->
          incr n_disagree;
          Printf.printf "D driver-exception L0 model=%s real=?\t%s\n" (Plan_suite.json_escape (Printexc.to_string e))
            (match String.index_opt line '\t' with Some t -> String.sub line 0 t | None -> line))
     done
   with End_of_file -> ());
  summary ()
