(* exec_suite.ml — suite S2: executor <-> M2.
   Input lines: "exec <params> :: <program>\t<real observation>".
   Correspondence: the real layouts equal the model's, every recorded trace of every level is
   accepted by the extracted acceptor for the MODEL layout (i.e. lies in the trace set the
   theorems quantify over).  Oracles (extracted from Exec.v / ExecObs.v) are evaluated on the
   real traces. *)
open Model
open Util

type rev = { k : char; tag : int; thr : string }

let parse_ev (s : string) : rev =
  let n = String.length s in
  let i = ref 1 in
  while !i < n && s.[!i] >= '0' && s.[!i] <= '9' do incr i done;
  let tag = if !i > 1 then int_of_string (String.sub s 1 (!i - 1)) else -1 in
  { k = s.[0]; tag; thr = String.sub s !i (n - !i) }

let parse_trace (s : string) : rev list =
  if s = "-" || s = "" then [] else List.map parse_ev (split_on ',' s)

let to_ev (r : rev) : ev option =
  match r.k with 'F' -> Some (EF (n_of_int r.tag)) | 'R' -> Some (ER (n_of_int r.tag)) | _ -> None

let evs (tr : rev list) : ev list = List.filter_map to_ev tr

(* key=value;... with L<tag>{...} blocks *)
let parse_fields (s : string) : (string * string) list * (int * (string * string) list) list =
  let len = String.length s in
  let fields = ref [] and levels = ref [] in
  let i = ref 0 in
  let kv_of str = match String.index_opt str '=' with
    | Some k -> Some (String.sub str 0 k, String.sub str (k + 1) (String.length str - k - 1)) | None -> None in
  while !i < len do
    if s.[!i] = 'L' && (try let ob = String.index_from s !i '{' in
                             let eq = (try String.index_from s !i '=' with Not_found -> len) in ob < eq with Not_found -> false) then begin
      let ob = String.index_from s !i '{' in
      let cb = String.index_from s ob '}' in
      let tag = int_of_string (String.sub s (!i + 1) (ob - !i - 1)) in
      let body = String.sub s (ob + 1) (cb - ob - 1) in
      levels := (tag, List.filter_map kv_of (split_on ';' body)) :: !levels;
      i := cb + 1;
      if !i < len && s.[!i] = ';' then incr i
    end else begin
      let e = try String.index_from s !i ';' with Not_found -> len in
      (match kv_of (String.sub s !i (e - !i)) with Some kv -> fields := kv :: !fields | None -> ());
      i := e + 1
    end
  done;
  (List.rev !fields, List.rev !levels)

(* ---------- program side ---------- *)
(* TL accesses are not part of the model's [reg]; read them from the tokens *)
let rec tl_access (toks : string list) (acc : (int * (n list * n list)) list) =
  match toks with
  | "T" :: tag :: r :: w :: rest -> tl_access rest ((int_of_string tag, (nlist_of_tok r, nlist_of_tok w)) :: acc)
  | _ :: rest -> tl_access rest acc
  | [] -> acc

let rec all_regs (rs : reg list) : reg list =
  List.concat_map (fun r -> match r with
      | RBatch (_, _, _, _, _, _, _, inner) -> r :: all_regs inner
      | _ -> [r]) rs

let rec multi_tags (toks : string list) acc =
  match toks with
  | "B" :: tag :: _ :: _ :: _ :: _ :: _ :: _ :: ck :: rest ->
      multi_tags rest (if String.length ck > 0 && ck.[String.length ck - 1] = 'm' then int_of_string tag :: acc else acc)
  | _ :: rest -> multi_tags rest acc
  | [] -> acc

(* ---------- statistics ---------- *)
let n_cases = ref 0 and n_traces = ref 0 and n_disagree = ref 0 and n_oracle = ref 0
let seen : (string, unit) Hashtbl.t = Hashtbl.create 10007
let hist : (string, int) Hashtbl.t = Hashtbl.create 64
let bump k = Hashtbl.replace hist k (1 + try Hashtbl.find hist k with Not_found -> 0)
let samples : string list ref = ref []

let check_line (line : string) : unit =
  match String.index_opt line '\t' with
  | None -> ()
  | Some tab when String.sub line (tab + 1) (String.length line - tab - 1) = "hang" ->
      (* the harness watchdog: this case did not come back within its time budget (a dispatch that never returns) *)
      incr n_cases; incr n_oracle;
      Printf.printf "O hang L0\t%s\n" (String.sub line 0 tab)
  | Some tab ->
      let case = String.sub line 0 tab in
      let real_s = String.sub line (tab + 1) (String.length line - tab - 1) in
      let head, prog_s =
        match Str.bounded_split (Str.regexp_string " :: ") case 2 with
        | [h; p] -> (h, p) | [h] -> (h, "") | _ -> failwith "bad case line" in
      let param k = List.fold_left (fun acc t ->
          let pre = k ^ "=" in
          if String.length t > String.length pre && String.sub t 0 (String.length pre) = pre
          then String.sub t (String.length pre) (String.length t - String.length pre) else acc) "" (split_on ' ' head) in
      (* 'r' = RunNow::run_now on the dispatcher: specified to be dispatch *)
      let calls = List.map (fun s -> if s.[0] = 'r' then 'd' else s.[0]) (split_on ',' (param "calls")) in
      let faults = if param "faults" = "-" then [] else List.map int_of_string (split_on ',' (param "faults")) in
      let mode = param "mode" in
      let toks = List.filter (fun t -> t <> "") (split_on ' ' prog_s) in
      let regs = Plan_suite.parse_program prog_s in
      let tla = tl_access toks [] in
      let multis = multi_tags toks [] in
      let fields, rlevels = parse_fields real_s in
      let get k = try List.assoc k fields with Not_found -> "" in
      incr n_cases;
      if List.length !samples < 4 && !n_cases mod 211 = 1 then
        samples := (if String.length line > 1500 then String.sub line 0 1500 ^ "..." else line) :: !samples;
      (* did a real borrow panic happen anywhere in this run?  (known finding KF1 is attributed only then, or for the
         oracles that observe KF1 itself) *)
      let contains hay needle =
        let n = String.length needle and h = String.length hay in
        let rec go i = i + n <= h && (String.sub hay i n = needle || go (i + 1)) in n > 0 && go 0 in
      let bp = List.exists (fun (k, v) ->
          String.length k >= 1 &&
          ((k.[0] = 'T' && List.exists (fun r -> r.k = 'B') (try parse_trace v with _ -> [])) ||
           (k.[0] = 'P' && contains v "626f72726f77"))) fields in
      let mark = if bp then "+bp" else "" in
      let disagree field lvl m r =
        incr n_disagree; Printf.printf "D %s L%d%s model=%s real=%s\t%s\n" field lvl mark m r case in
      let oracle name lvl = incr n_oracle; Printf.printf "O %s L%d%s\t%s\n" name lvl mark case in
      if get "builderr" <> "" then disagree "builderr" 0 "ok" (get "builderr") else begin
      (* --- levels, model layouts --- *)
      let lvls = List.map (fun (t, p) -> (int_of_n t, p)) (levels regs) in
      let model_lay = List.map (fun (t, p) -> (t, model_layout p)) lvls in
      List.iter (fun (t, ml) ->
          if not (List.mem t multis) then
          match ml, List.assoc_opt t rlevels with
          | Some (lay, tl), Some rf ->
              let sh = String.concat "/" (List.map (fun st -> String.concat "." (List.map (fun g -> string_of_int (List.length g)) st)) lay) in
              let sh = if sh = "" then "-" else sh in
              let ord = tok_of_ints (List.map int_of_n (List.concat (List.concat lay))) in
              let rget k = try List.assoc k rf with Not_found -> "" in
              if rget "shape" <> sh then disagree "shape" t sh (rget "shape");
              if rget "order" <> ord then disagree "order" t ord (rget "order");
              if rget "tlorder" <> tok_of_ints (List.map int_of_n tl) then disagree "tlorder" t (tok_of_ints (List.map int_of_n tl)) (rget "tlorder")
          | None, _ -> disagree "level-plan" t "error" "built"
          | Some _, None -> if t = 0 then disagree "level-missing" t "present" "absent") model_lay;
      (* --- access tables, conflict relation --- *)
      let every = all_regs regs in
      let access : (int, n list * n list) Hashtbl.t = Hashtbl.create 64 in
      List.iter (fun r -> match reg_tag r with
          | Some t -> Hashtbl.replace access (int_of_n t) (eff_reads r, eff_writes r) | None -> ()) every;
      List.iter (fun (t, a) -> Hashtbl.replace access t a) tla;
      let subtree : (int, int list) Hashtbl.t = Hashtbl.create 16 in
      List.iter (fun r -> match r with
          | RBatch (t, _, _, _, _, _, _, _) -> Hashtbl.replace subtree (int_of_n t) (List.map int_of_n (subtree_tags r))
          | _ -> ()) every;
      let related a b =
        (match Hashtbl.find_opt subtree a with Some l -> List.mem b l | None -> false) ||
        (match Hashtbl.find_opt subtree b with Some l -> List.mem a l | None -> false) in
      let conflict (a : n) (b : n) : bool =
        let a = int_of_n a and b = int_of_n b in
        if a = b || related a b then false else
          match Hashtbl.find_opt access a, Hashtbl.find_opt access b with
          | Some (r1, w1), Some (r2, w2) -> rw_conflict r1 w1 r2 w2
          | _ -> false in
      let level_tags prog = List.map int_of_n (sys_tags prog) @ List.map int_of_n (tl_tags prog) in
      let tl_all = List.map fst tla in
      let top_prog = List.assoc 0 lvls in
      let top_tl = List.map int_of_n (tl_tags top_prog) in
      (* --- one trace --- *)
      let check_trace (name : string) (call : char) (tr : rev list) (faulty : bool) =
        incr n_traces;
        let all_e = evs tr in
        (* C01/C07: no two conflicting windows overlap, at any depth *)
        if not (o_no_overlap conflict all_e) then oracle ("no_overlap:" ^ name) 0;
        if List.exists (fun r -> r.k = 'B') tr then oracle ("borrow_panic:" ^ name) 0;
        (* C07: inner events inside the window of their batch *)
        Hashtbl.iter (fun b sub ->
            let inner = List.filter (fun t -> t <> b) sub in
            if not (o_inside (n_of_int b) (List.map n_of_int inner) all_e) then oracle ("inside:" ^ name) b) subtree;
        (* C12: thread-local systems on the calling thread *)
        List.iter (fun r -> if r.k = 'F' && List.mem r.tag tl_all && r.thr <> "c" then
                      oracle ((if List.mem r.tag top_tl then "tl_on_caller:" else "inner_tl_on_caller:") ^ name) 0) tr;
        (* per level *)
        let check_level ?(faulty = faulty) (lt : int) (prog : reg list) (seg : rev list) (kind : char) =
          let tags = level_tags prog in
          let seg_e = evs (List.filter (fun r -> List.mem r.tag tags) seg) in
          (match List.assoc lt model_lay with
           | None -> ()
           | Some (lay, tl) ->
               if not faulty then begin
                 let ok = match kind with
                   | 'd' -> accept_disp lay tl seg_e
                   | 'p' -> accept_disp lay [] seg_e
                   | 's' -> seg_e = trace_seq lay []
                   | 't' -> seg_e = group_trace tl
                   | _ -> false in
                 if not ok then disagree ("accept:" ^ name) lt "in-trace-set" "not-accepted"
               end else begin
                 (* C14: the recorded faulty trace must lie in the faulty trace set of Fault.v.  A batch of this
                    level whose window contains the panic of a descendant has itself panicked: its (unlogged)
                    panic is made explicit *)
                 let marked = ref [] in
                 let opened : (int, bool ref) Hashtbl.t = Hashtbl.create 8 in
                 let out = ref [] in
                 List.iter (fun r ->
                     if List.mem r.tag tags then begin
                       (match r.k with
                        | 'F' -> if Hashtbl.mem subtree r.tag then Hashtbl.replace opened r.tag (ref false);
                            out := FF (n_of_int r.tag) :: !out
                        | 'P' -> out := FP (n_of_int r.tag) :: !out
                        | 'R' ->
                            (match Hashtbl.find_opt opened r.tag with
                             | Some m -> if !m then (marked := r.tag :: !marked; out := FP (n_of_int r.tag) :: !out);
                                 Hashtbl.remove opened r.tag
                             | None -> ());
                            out := FR (n_of_int r.tag) :: !out
                        | _ -> ())
                     end else if r.k = 'P' then
                       Hashtbl.iter (fun b m -> match Hashtbl.find_opt subtree b with
                           | Some sub -> if List.mem r.tag sub then m := true | None -> ()) opened) seg;
                 let seg_f = List.rev !out in
                 let fl = List.map n_of_int (List.filter (fun t -> List.mem t tags) faults @ !marked) in
                 let ok = match kind with
                   | 'd' -> faccept_disp fl lay tl seg_f
                   | 'p' -> faccept_disp fl lay [] seg_f
                   | 's' -> seg_f = fst (ftrace_seq fl lay [])
                   | 't' -> seg_f = fst (fgroup fl tl)
                   | _ -> false in
                 bump "faulty-traces-checked";
                 if List.exists (fun e -> match e with FP _ -> true | _ -> false) seg_f then bump "faulty-traces-with-panic";
                 if not ok then disagree ("faccept:" ^ name) lt "in-faulty-trace-set" "not-accepted"
               end);
          (* C02/C03: predecessors finished *)
          if not (o_preds_done (must_precede prog) seg_e) then oracle ("preds_done:" ^ name) lt;
          if not faulty then begin
            let stags = sys_tags prog and ttags = tl_tags prog in
            let expect = match kind with 'd' -> stags @ ttags | 'p' | 's' -> stags | _ -> ttags in
            if not (o_once expect seg_e) then begin
              oracle ("once:" ^ name) lt;
              (* C14: the dispatch following a caught panic must run every system exactly once *)
              if name = "TN" then oracle "next_dispatch" lt
            end;
            if kind = 'd' && not (o_tl_last ttags seg_e) then oracle ("tl_last:" ^ name) lt
          end in
        check_level 0 top_prog tr call;
        (* C07: the WHOLE log of a full dispatch (every depth in one trace) must be a nested trace of the model
           (NestedObs.naccept, sound by C07_nested_acceptor_sound): then no two conflicting systems anywhere in the
           tree overlapped in this run *)
        if (not faulty) && call = 'd' then begin
          bump "nested-traces-checked";
          if not (naccept (nat_of_int 6) regs all_e) then disagree ("naccept:" ^ name) 0 "in-nested-trace-set" "not-accepted"
        end;
        (* inner levels of harness controllers: segments between D<b> and E<b> *)
        List.iter (fun (lt, prog) ->
            if lt <> 0 && not (List.mem lt multis) then begin
              let cur = ref None in
              List.iter (fun r ->
                  if r.k = 'D' && r.tag = lt then cur := Some []
                  else if r.k = 'E' && r.tag = lt then begin
                    (* a completed inner dispatch: nothing propagated out of it *)
                    (match !cur with Some acc -> check_level ~faulty:false lt prog (List.rev acc) 'd' | None -> ());
                    cur := None
                  end else if r.k = 'R' && r.tag = lt then begin
                    (* the batch ended inside an inner dispatch: that dispatch was cut by a panic *)
                    (match !cur with Some acc -> check_level ~faulty:true lt prog (List.rev acc) 'd' | None -> ());
                    cur := None
                  end else match !cur with Some acc -> cur := Some (r :: acc) | None -> ()) tr
            end) lvls in
      (* --- the calls --- *)
      let faulty = faults <> [] in
      List.iteri (fun i call ->
          let tr = parse_trace (get (Printf.sprintf "T%d" i)) in
          check_trace (Printf.sprintf "T%d" i) call tr faulty;
          let probe = get (Printf.sprintf "probe%d" i) in
          if probe <> "-" && String.exists (fun c -> c <> '0') probe then oracle "probe_free" 0;
          let payload = get (Printf.sprintf "P%d" i) in
          let ps = List.filter (fun r -> r.k = 'P') tr in
          if not faulty then (if payload <> "-" then oracle "unexpected_panic" 0)
          else begin
            (* C14 *)
            (if ps = [] then (if payload <> "-" then oracle "panic_payload" 0)
             else begin
               let ok = List.exists (fun r -> payload = hex_of_bytes (List.map (fun c -> n_of_int (Char.code c))
                                                                        (List.init (String.length ("injected panic " ^ string_of_int r.tag))
                                                                           (String.get ("injected panic " ^ string_of_int r.tag))))) ps in
               if not ok then oracle "panic_payload" 0
             end);
            (* nothing runs twice *)
            let counts = Hashtbl.create 16 in
            List.iter (fun r -> if r.k = 'F' then Hashtbl.replace counts r.tag (1 + try Hashtbl.find counts r.tag with Not_found -> 0)) tr;
            List.iter (fun t -> if (try Hashtbl.find counts t with Not_found -> 0) > 1 then oracle "panic_twice" 0)
              (List.map int_of_n (sys_tags top_prog) @ top_tl);
            (* no dependent of a panicked system runs *)
            List.iter (fun (_, prog) ->
                let tags = List.map int_of_n (sys_tags prog) in
                let direct t = List.filter (fun s -> List.mem (n_of_int t) (match find_reg (n_of_int s) prog with Some r -> dep_tags prog r | None -> [])) tags in
                let rec closure seen frontier = match frontier with
                  | [] -> seen
                  | t :: rest -> let ds = List.filter (fun d -> not (List.mem d seen)) (direct t) in closure (ds @ seen) (ds @ rest) in
                List.iter (fun p -> if List.mem p.tag tags then
                              List.iter (fun d -> if List.exists (fun r -> r.k = 'F' && r.tag = d) tr then oracle "panic_dependents" 0)
                                (closure [] [p.tag])) ps) lvls
          end) calls;
      if faulty then begin
        let tr = parse_trace (get "TN") in
        let nk = (let v = param "next" in if v = "" || v.[0] = 'r' then 'd' else v.[0]) in
        check_trace "TN" nk tr false;
        if get "PN" <> "-" then oracle "next_dispatch" 0;
        (* C14/C04: "as if nothing had happened": in that next dispatch every system at every depth starts exactly as often
           as one dispatch of its kind makes it run (systems inside batches: once per planned inner dispatch) *)
        (let want = Hashtbl.create 32 in
         let rec walk (rs : reg list) (m_sys : int) (m_tl : int) =
           List.iter (fun r -> match r with
               | RSys (t, _, _, _, _, _) -> Hashtbl.replace want (int_of_n t) m_sys
               | RTL t -> Hashtbl.replace want (int_of_n t) m_tl
               | RBatch (t, _, _, _, _, _, cnt, inner) -> Hashtbl.replace want (int_of_n t) m_sys; walk inner (m_sys * int_of_n cnt) (m_sys * int_of_n cnt)
               | RBarrier -> ()) rs in
         walk regs 1 (if nk = 'd' then 1 else 0);
         let got = Hashtbl.create 32 in
         List.iter (fun r -> if r.k = 'F' then Hashtbl.replace got r.tag (1 + try Hashtbl.find got r.tag with Not_found -> 0)) tr;
         if Hashtbl.fold (fun t w bad -> bad || (try Hashtbl.find got t with Not_found -> 0) <> w) want false then oracle "next_dispatch" 0);
        (* a later dispatch in which one other system panics alone: the payload is that system's *)
        (if get "PN2" <> "" then begin
           let want = "injected panic " ^ get "nf" in
           let hex = String.concat "" (List.map (fun c -> Printf.sprintf "%02x" (Char.code c)) (List.init (String.length want) (String.get want))) in
           if get "PN2" <> hex then oracle "panic_payload" 0
         end);
        let probe = get "probeN" in
        if probe <> "-" && String.exists (fun c -> c <> '0') probe then oracle "probe_free" 0
      end;
      (* --- C04 run counts, C05 parallel = sequential --- *)
      if not faulty then begin
        let mult_top is_tl = List.fold_left (fun a c -> a + (match c, is_tl with
            | ('d', _) -> 1 | (('p' | 's'), false) -> 1 | ('t', true) -> 1 | _ -> 0)) 0 calls in
        let expected = Hashtbl.create 32 in
        let rec walk (rs : reg list) (m_sys : int) (m_tl : int) =
          List.iter (fun r -> match r with
              | RSys (t, _, _, _, _, _) -> Hashtbl.replace expected (int_of_n t) m_sys
              | RTL t -> Hashtbl.replace expected (int_of_n t) m_tl
              | RBatch (_, _, _, _, _, _, cnt, inner) -> walk inner (m_sys * int_of_n cnt) (m_sys * int_of_n cnt)
              | RBarrier -> ()) rs in
        walk regs (mult_top false) (mult_top true);
        let runs = if get "runs" = "-" then [] else List.map (fun kv -> match split_on ':' kv with [a; b] -> (int_of_string a, int_of_string b) | _ -> (-1, -1)) (split_on ',' (get "runs")) in
        List.iter (fun (t, n) -> match Hashtbl.find_opt expected t with
            | Some e -> if e <> n then oracle "run_counts" t
            | None -> ()) runs;
        if get "twinok" = "1" then begin
          if get "world" <> get "twin" then oracle "par_eq_seq(world)" 0;
          if get "states" <> get "twinstates" then oracle "par_eq_seq(states)" 0
        end
      end;
      (* --- C13 --- *)
      let visit field k =
        let tr = parse_trace (get field) in
        let got = List.sort compare (List.filter_map (fun r -> if r.k = k then Some r.tag else None) tr) in
        let want = List.sort compare (List.filter_map (fun r -> match r with
            | RSys (t, _, _, _, _, _) -> Some (int_of_n t) | RTL t -> Some (int_of_n t) | _ -> None) every) in
        got = want in
      (* exact visit order against the model (Visit.v): stages, groups, members, then thread-locals, batches recursively *)
      let order field k = List.filter_map (fun r -> if r.k = k then Some r.tag else None) (parse_trace (get field)) in
      let model_order = List.map int_of_n (visits regs) in
      if order "setup" 'S' <> model_order then
        disagree "setup_order" 0 (tok_of_ints model_order) (tok_of_ints (order "setup" 'S'));
      if get "setup2" <> "" then begin
        if order "setup2" 'S' <> model_order then disagree "setup_order" 0 (tok_of_ints model_order) (tok_of_ints (order "setup2" 'S'));
        if not (visit "setup2" 'S') then oracle "setup_visits" 0;
        if get "setup2keeps" <> "1" || get "setup2ok" <> "1" then oracle "setup_keeps" 0;
        if get "setup2recreates" <> "1" then oracle "setup_recreates" 0
      end;
      (* the same dispatcher on a second world, then on the first again: full dispatches like any other *)
      if get "TW" <> "" then begin
        check_trace "TW" 'd' (parse_trace (get "TW")) false;
        if get "PW" <> "-" || get "setupWok" <> "1" then oracle "unexpected_panic" 0;
        check_trace "TB" 'd' (parse_trace (get "TB")) false;
        if get "PB" <> "-" then oracle "unexpected_panic" 0
      end;
      if param "nest" = "1" then begin
        (* the dispatcher nested as a system in an outer dispatcher: set up, run (= one dispatch), disposed through RunNow *)
        if order "setupN" 'S' <> model_order then disagree "setup_order" 0 (tok_of_ints model_order) (tok_of_ints (order "setupN" 'S'));
        if not (visit "setupN" 'S') || get "setupNok" <> "1" then oracle "setup_visits" 0;
        check_trace "TNest" 'd' (parse_trace (get "TNest")) false;
        if get "PNest" <> "-" then oracle "unexpected_panic" 0
      end;
      if order "dispose" 'X' <> model_order then
        disagree "dispose_order" 0 (tok_of_ints model_order) (tok_of_ints (order "dispose" 'X'));
      if not (visit "setup" 'S') then oracle "setup_visits" 0;
      (* C13: the data a batch controller declares is set up exactly once (a counting setup handler on the controller data
         of menu item 6, recognisable by its declared read of resource 6) *)
      (if get "ctlsetups" <> "" then begin
         let rec count rs = List.fold_left (fun a r -> match r with
             | RBatch (_, _, _, cr, cw, _, _, inner) -> a + (if List.map int_of_n cr = [6] && cw = [] then 1 else 0) + count inner
             | _ -> a) 0 rs in
         if int_of_string (get "ctlsetups") <> count regs then oracle "setup_visits" 0
       end);
      if get "setupkeeps" <> "1" || get "setupok" <> "1" then oracle "setup_keeps" 0;
      if not (visit "dispose" 'X') || get "disposeok" <> "1" then oracle "dispose_visits" 0;
      if get "idok" <> "1" then oracle "identify_run" 0
      end;
      (* statistics *)
      let key = head ^ prog_s in
      if not (Hashtbl.mem seen key) then begin
        Hashtbl.add seen key ();
        let m = match String.index_opt mode ':' with Some k -> String.sub mode 0 k | None -> mode in
        bump ("mode:" ^ m); bump ("pool:" ^ param "pool");
        if faults <> [] then bump "with-faults";
        if Hashtbl.length (Hashtbl.create 1) >= 0 && List.exists (fun t -> t = "B") toks then bump "has-batch";
        if tla <> [] then bump "has-thread-local";
        let nsys = List.length (List.filter (fun t -> t = "S") toks) in
        bump ("systems:" ^ Plan_suite.bucket nsys);
        let nontrivial = nsys >= 2 in
        if nontrivial && Sys.getenv_opt "VERIF_HASHES" <> None then
          Printf.printf "H %s\n" (Digest.to_hex (Digest.string key))
      end

let summary () =
  let h = Hashtbl.fold (fun k v acc -> Printf.sprintf "\"%s\":%d" (Plan_suite.json_escape k) v :: acc) hist [] in
  Printf.printf "SUMMARY {\"suite\":\"exec\",\"cases\":%d,\"traces\":%d,\"disagreements\":%d,\"oracle_failures\":%d,\"hist\":{%s},\"samples\":[%s]}\n"
    !n_cases !n_traces !n_disagree !n_oracle
    (String.concat "," (List.sort compare h))
    (String.concat "," (List.map (fun s -> "\"" ^ Plan_suite.json_escape s ^ "\"") (List.rev !samples)))

let run () =
  (try
     while true do
       let line = input_line stdin in
       (try check_line line
        with e ->
          incr n_disagree;
          Printf.printf "D driver-exception L0 model=%s real=?\t%s\n" (Plan_suite.json_escape (Printexc.to_string e))
            (match String.index_opt line '\t' with Some t -> String.sub line 0 t | None -> line))
     done
   with End_of_file -> ());
  summary ()
