(* cells_suite.ml — suite S9: the pool cells of nested builders <-> PoolCells.v.
   Input lines: "cells :: <ops>\t<node>:<u<k>|d>,..." (the pool whose worker ran the probe system of every builder). *)
open Model
open Util

let n_cases = ref 0 and n_disagree = ref 0 and n_oracle = ref 0
let hist : (string, int) Hashtbl.t = Hashtbl.create 16
let bump k = Hashtbl.replace hist k (1 + try Hashtbl.find hist k with Not_found -> 0)
let samples : string list ref = ref []

let rec parse_list (toks : string list) : bop list * string list =
  match toks with
  | [] -> ([], [])
  | "}" :: rest -> ([], rest)
  | "B{" :: rest ->
      let sub, rest' = parse_list rest in
      let more, rest'' = parse_list rest' in
      (OpBatch sub :: more, rest'')
  | t :: rest when String.length t > 1 && t.[0] = 'P' ->
      let more, rest' = parse_list rest in
      (OpPool (nat_of_int (int_of_string (String.sub t 1 (String.length t - 1)))) :: more, rest')
  | t :: _ -> failwith ("bad cells token " ^ t)

let show = function Some (User k) -> "u" ^ string_of_int (int_of_nat k) | Some (Default _) -> "d" | None -> "none"

let rec depth ops = List.fold_left (fun a o -> match o with OpBatch s -> max a (1 + depth s) | _ -> a) 0 ops

let check_line (line : string) : unit =
  match String.index_opt line '\t' with
  | None -> ()
  | Some tab when String.sub line (tab + 1) (String.length line - tab - 1) = "hang" ->
      incr n_cases; incr n_oracle; Printf.printf "O hang L0\t%s\n" (String.sub line 0 tab)
  | Some tab ->
      let case = String.sub line 0 tab in
      let real_s = String.sub line (tab + 1) (String.length line - tab - 1) in
      let ops_s = match Str.bounded_split (Str.regexp_string " :: ") case 2 with [_; p] -> p | _ -> "" in
      let ops, _ = parse_list (List.filter (fun t -> t <> "") (split_on ' ' ops_s)) in
      incr n_cases;
      if List.length !samples < 5 && !n_cases mod 13 = 1 then samples := line :: !samples;
      let r = build_root true ops in
      let model = String.concat "," (List.mapi (fun i q -> Printf.sprintf "%d:%s" i (show q)) (node_pools r)) in
      if model <> real_s then begin
        incr n_disagree; Printf.printf "D pools L0 model=%s real=%s\t%s\n" model real_s case
      end;
      (* oracle on the REAL observation alone: every builder of the tree ran its system on the pool of the outermost one,
         and that is the last pool attached to the outermost builder (if any) *)
      let entries = if real_s = "" then [] else List.map (fun e -> match split_on ':' e with [_; p] -> p | _ -> "?") (split_on ',' real_s) in
      (match entries with
       | root :: _ ->
           if List.exists (fun p -> p <> root) entries then (incr n_oracle; Printf.printf "O batch_on_another_pool L0\t%s\n" case);
           let last = List.fold_left (fun a o -> match o with OpPool k -> Some (int_of_nat k) | _ -> a) None ops in
           (match last with
            | Some k -> if root <> "u" ^ string_of_int k then (incr n_oracle; Printf.printf "O attached_pool_not_used L0\t%s\n" case)
            | None -> if root <> "d" then (incr n_oracle; Printf.printf "O attached_pool_not_used L0\t%s\n" case))
       | [] -> incr n_oracle; Printf.printf "O batch_on_another_pool L0\t%s\n" case);
      bump ("depth:" ^ string_of_int (depth ops)); bump ("builders:" ^ Plan_suite.bucket (List.length entries));
      if Sys.getenv_opt "VERIF_HASHES" <> None && List.length entries >= 2 then Printf.printf "H %s\n" (Digest.to_hex (Digest.string case))

let summary () =
  let h = Hashtbl.fold (fun k v acc -> Printf.sprintf "\"%s\":%d" (Plan_suite.json_escape k) v :: acc) hist [] in
  Printf.printf "SUMMARY {\"suite\":\"cells\",\"cases\":%d,\"disagreements\":%d,\"oracle_failures\":%d,\"hist\":{%s},\"samples\":[%s]}\n"
    !n_cases !n_disagree !n_oracle
    (String.concat "," (List.sort compare h))
    (String.concat "," (List.map (fun s -> "\"" ^ Plan_suite.json_escape s ^ "\"") (List.rev !samples)))

let run () =
  (try
     while true do
       let line = input_line stdin in
       (try check_line line
        with e ->
          incr n_disagree;
          Printf.printf "D driver-exception L0 model=%s real=?\t%s\n" (Plan_suite.json_escape (Printexc.to_string e))
            (match String.index_opt line '\t' with Some t -> String.sub line 0 t | None -> line))
     done
   with End_of_file -> ());
  summary ()
