(* world_suite.ml — suite S3: World <-> M3 (World.v).
   Input lines: "world :: <ops>\t<step observations>".  After EVERY operation the outcome, the
   probe of all keys (presence, borrow class, serial, payload) and the drop ledger of the real
   world must equal the model's; at the end everything created has been dropped exactly once. *)
open Model
open Util

let n_cases = ref 0 and n_steps = ref 0 and n_disagree = ref 0 and n_oracle = ref 0
let hist : (string, int) Hashtbl.t = Hashtbl.create 64
let bump k = Hashtbl.replace hist k (1 + try Hashtbl.find hist k with Not_found -> 0)
let samples : string list ref = ref []
let seen : (string, unit) Hashtbl.t = Hashtbl.create 10007

let nty = 4 and ndyn = 4
let universe : (n * n) list =
  List.concat_map (fun t -> List.map (fun d -> (n_of_int t, n_of_int d)) (List.init ndyn (fun i -> i))) (List.init nty (fun i -> i))

let fkind_of_int = function 0 -> FFetch | 1 -> FTryFetch | 2 -> FTryById | 3 -> FFetchMut | 4 -> FTryFetchMut | _ -> FTryMutById

let parse_op (s : string) : op option =
  let t = List.filter (fun x -> x <> "") (split_on ' ' s) in
  let n i = n_of_int (int_of_string (List.nth t i)) in
  match t with
  | [] -> None
  | "I" :: _ -> Some (OInsert (n 1, (n 2, n 3), (n 4, n 5)))
  | "X" :: _ -> Some (ORemove (n 1, (n 2, n 3)))
  | "E" :: _ -> Some (OEntry (n 1, (n 2, n 3)))
  | "H" :: _ -> Some (OHas (n 1, n 2))
  | "M" :: _ -> Some (OGetMut (n 1, n 2))
  | "F" :: _ -> Some (OFetchOp (fkind_of_int (int_of_string (List.nth t 1)), n 2, (n 3, n 4)))
  | "Fu" :: _ -> Some (OFetchOp (fkind_of_int (int_of_string (List.nth t 1)), n 2, (n 3, n 4)))
  | "C" :: _ -> Some (OClone (n 1))
  | "D" :: _ -> Some (ODrop (n 1))
  | "R" :: _ -> Some (ORead (n 1))
  | "W" :: _ -> Some (OWrite (n 1, n 2))
  | x :: _ -> failwith ("bad op " ^ x)

let outcome_str (o : outcome) : string =
  match o with
  | OUnit -> "u"
  | OBool b -> if b then "b1" else "b0"
  | OVal (a, b) -> Printf.sprintf "v%d.%d" (int_of_n a) (int_of_n b)
  | ONone -> "n"
  | OGuard g -> Printf.sprintf "g%d" (int_of_n g)
  | OPanic PMissing -> "px"
  | OPanic PAlreadyBorrowed -> "pb"
  | OPanic PAlreadyMutBorrowed -> "pb"   (* the message texts of atomic_refcell differ between the checked and unchecked forms: one class *)
  | OPanic PWrongType -> "pw"
  | OPanic PNotEnabled -> "pe"
  | OPanic PBadGuard -> "pg"

let probe_str (w : world) : string =
  String.concat "," (List.map (function
      | None -> "-"
      | Some ((c, s), p) -> Printf.sprintf "%d:%d.%d" (int_of_n c) (int_of_n s) (int_of_n p)) (probe w universe))

let ledger_str (w : world) : string =
  String.concat "." (List.map string_of_int (List.sort compare (List.map int_of_n (dropped w))))

let check_line (line : string) : unit =
  match String.index_opt line '\t' with
  | None -> ()
  | Some tab ->
      let case = String.sub line 0 tab in
      let real_s = String.sub line (tab + 1) (String.length line - tab - 1) in
      let ops_s = match Str.bounded_split (Str.regexp_string " :: ") case 2 with [_; p] -> p | _ -> "" in
      let ops = List.filter_map parse_op (split_on ';' ops_s) in
      let reals = List.map String.trim (split_on ';' real_s) in
      incr n_cases;
      if List.length !samples < 4 && !n_cases mod 97 = 1 then
        samples := (if String.length line > 1200 then String.sub line 0 1200 ^ "..." else line) :: !samples;
      let disagree field i m r =
        incr n_disagree; Printf.printf "D %s L%d model=%s real=%s\t%s\n" field i m r case in
      let oracle name i = incr n_oracle; Printf.printf "O %s L%d\t%s\n" name i case in
      let w = ref empty_world in
      let created = ref [] in
      let stop = ref false in
      List.iteri (fun i o ->
          begin
            incr n_steps;
            let r = try List.nth reals i with _ -> "?" in
            (* ---- correspondence with the model, up to the first disagreement ---- *)
            if not !stop then begin
              let w0 = !w in
              let (w1, out) = step w0 o in
              w := w1;
              let m = Printf.sprintf "%s|%s|%s" (outcome_str out) (probe_str w1) (ledger_str w1) in
              (match out with
               | OPanic k -> bump ("outcome:panic:" ^ outcome_str (OPanic k))
               | OGuard _ -> bump "outcome:guard" | ONone -> bump "outcome:none" | _ -> bump "outcome:ok");
              if m <> r then begin
                let mf = split_on '|' m and rf = split_on '|' r in
                let field = match mf, rf with
                  | a :: _, b :: _ when a <> b -> "outcome"
                  | _ :: a :: _, _ :: b :: _ when a <> b -> "probe"
                  | _ -> "ledger" in
                disagree field i m r; stop := true
              end
            end;
            (* ---- oracles on the REAL observation (they need no model state: they go on after a disagreement) ---- *)
            let rf = split_on '|' r in
            (match rf with
             | rout :: rprobe :: _ ->
                 (* an object exists as soon as the call was really made (the harness does not construct the argument
                    of a `&mut self` call it cannot issue) *)
                 (match o with
                  | OInsert (_, _, (s, _)) | OEntry (_, (s, _)) -> if rout <> "pe" then created := int_of_n s :: !created
                  | _ -> ());
                 (* C08: a failing operation (panic / None) leaves every cell as it was *)
                 let prev = if i = 0 then String.concat "," (List.map (fun _ -> "-") universe)
                   else (match split_on '|' (try List.nth reals (i - 1) with _ -> "") with _ :: p :: _ -> p | _ -> "") in
                 if (String.length rout > 0 && (rout.[0] = 'p' || rout = "n")) && prev <> "" && rprobe <> prev then
                   oracle "fail_preserves" i;
                 (* C08: the try_/Option forms return None only when the resource is absent *)
                 (match o with
                  | OFetchOp (_, ty, k) when rout = "n" ->
                      let idx = int_of_n (fst k) * ndyn + int_of_n (snd k) in
                      let cellp = try List.nth (split_on ',' prev) idx with _ -> "-" in
                      if ty = fst k && cellp <> "-" then oracle "none_iff_absent" i
                  | _ -> ());
                 (* C09: presence queries and fetches agree with the map: has_value / get_mut / the fetches answer
                    "there" exactly when the REAL probe taken before the call shows a value under that key *)
                 (let cell_before k =
                    let idx = int_of_n (fst k) * ndyn + int_of_n (snd k) in
                    try List.nth (split_on ',' prev) idx with _ -> "-" in
                  match o with
                  | OHas k -> if (rout = "b1") <> (cell_before k <> "-") && prev <> "" then oracle "presence_agrees" i
                  | OGetMut k ->
                      if rout <> "pe" && prev <> "" && ((rout = "n") <> (cell_before k = "-")) then oracle "presence_agrees" i;
                      (* C09: what get_mut / get_mut_raw hand out IS the stored value: its type is the type named by the id and
                         its payload the one the probe showed *)
                      if String.length rout > 1 && rout.[0] = 'v' && prev <> "" then begin
                        match split_on '.' (String.sub rout 1 (String.length rout - 1)), split_on ':' (cell_before k) with
                        | [t; p], [_; sp] ->
                            let pay = (match split_on '.' sp with [_; x] -> x | _ -> "?") in
                            if int_of_string t <> int_of_n (fst k) || p <> pay then oracle "get_mut_identity" i
                        | _ -> oracle "get_mut_identity" i
                      end
                  | OFetchOp (_, ty, k) when ty = fst k && prev <> "" ->
                      let there = cell_before k <> "-" in
                      if (rout = "n" && there) || (String.length rout > 0 && rout.[0] = 'g' && not there) || (rout = "px" && there)
                      then oracle "presence_agrees" i
                  | _ -> ());
                 (* C08: shared xor exclusive, as far as the probe shows: class 0,1,2 only *)
                 List.iter (fun c -> if c <> "-" && not (List.mem c.[0] ['0'; '1'; '2']) then oracle "borrow_class" i) (split_on ',' rprobe);
                 (* C09: insert replaces at ITS key, remove empties ITS key, entry touches only (ty, 0); every other slot —
                    in particular the same type under another dynamic id — is untouched (compared on the REAL probes) *)
                 (let key_of = function
                    | OInsert (ty, k, _) when ty = fst k -> Some k | ORemove (ty, k) when ty = fst k -> Some k
                    | OEntry (ty, _) -> Some (ty, N0) | _ -> None in
                  match key_of o with
                  | Some k when rout <> "pe" && prev <> "" ->
                      let idx = int_of_n (fst k) * ndyn + int_of_n (snd k) in
                      let pl = split_on ',' prev and nl = split_on ',' rprobe in
                      List.iteri (fun j c -> if j <> idx && (try List.nth pl j with _ -> "") <> c then oracle "other_slots_untouched" i) nl;
                      let here = try List.nth nl idx with _ -> "?" in
                      (match o with
                       | OInsert (_, _, (s, p)) ->
                           if rout = "u" && here <> Printf.sprintf "0:%d.%d" (int_of_n s) (int_of_n p) then oracle "insert_replaces" i
                       | ORemove _ -> if here <> "-" then oracle "remove_empties" i
                       | OEntry (_, (s, p)) ->
                           let before = try List.nth pl idx with _ -> "?" in
                           if before <> "-" && here <> before then oracle "entry_never_overwrites" i;
                           if before = "-" && here <> Printf.sprintf "0:%d.%d" (int_of_n s) (int_of_n p) then oracle "entry_inserts" i
                       | _ -> ())
                  | _ -> ());
                 (* C09: a mismatching type argument panics *)
                 (match o with
                  | OInsert (ty, k, _) | ORemove (ty, k) | OFetchOp ((FTryById | FTryMutById), ty, k) ->
                      if ty <> fst k && rout <> "pw" && rout <> "pe" then oracle "mismatch_panics" i
                  | _ -> ())
             | _ -> ())
          end) ops;
      (* teardown: every created object dropped exactly once *)
      begin
        let last = try List.nth reals (List.length ops) with _ -> "" in
        (match split_on '|' last with
         | ["end"; led] ->
             let got = List.sort compare (List.map int_of_string (List.filter (fun x -> x <> "") (split_on '.' led))) in
             let want = List.sort compare !created in
             if got <> want then oracle "drop_once" (List.length ops)
         | ["end"] -> if !created <> [] then oracle "drop_once" (List.length ops)
         | _ -> disagree "end" (List.length ops) "end|..." last)
      end;
      let key = ops_s in
      if not (Hashtbl.mem seen key) then begin
        Hashtbl.add seen key ();
        bump ("length:" ^ Plan_suite.bucket (List.length ops));
        if List.length ops >= 2 && Sys.getenv_opt "VERIF_HASHES" <> None then
          Printf.printf "H %s\n" (Digest.to_hex (Digest.string key))
      end

let summary () =
  let h = Hashtbl.fold (fun k v acc -> Printf.sprintf "\"%s\":%d" (Plan_suite.json_escape k) v :: acc) hist [] in
  Printf.printf "SUMMARY {\"suite\":\"world\",\"cases\":%d,\"steps\":%d,\"disagreements\":%d,\"oracle_failures\":%d,\"hist\":{%s},\"samples\":[%s]}\n"
    !n_cases !n_steps !n_disagree !n_oracle
    (String.concat "," (List.sort compare h))
    (String.concat "," (List.map (fun s -> "\"" ^ Plan_suite.json_escape s ^ "\"") (List.rev !samples)))

let run () =
  (try
     while true do
       let line = input_line stdin in
       (try check_line line
        with e ->
          incr n_disagree;
          Printf.printf "D driver-exception L0 model=%s real=?\t%s\n" (Plan_suite.json_escape (Printexc.to_string e))
            (match String.index_opt line '\t' with Some t -> String.sub line 0 t | None -> line))
     done
   with End_of_file -> ());
  summary ()
