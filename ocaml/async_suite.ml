(* async_suite.ml — suite S7: AsyncDispatcher <-> M7 (Async.v).
   Input lines: "async pool=.. hold=.. ops=.. :: <program>\t<observation>".  The recorded history
   (events of systems, begin/end markers of the caller's operations) is fed to the extracted
   acceptor of the hand-off state machine; independent oracles look at the raw log. *)
open Model
open Util

let n_cases = ref 0 and n_disagree = ref 0 and n_oracle = ref 0
let hist : (string, int) Hashtbl.t = Hashtbl.create 64
let bump k = Hashtbl.replace hist k (1 + try Hashtbl.find hist k with Not_found -> 0)
let samples : string list ref = ref []
let seen : (string, unit) Hashtbl.t = Hashtbl.create 4096

let aop_of c res = match c with
  | 'd' -> ADispatch | 'w' -> AWait | 'n' -> AWaitNoTl | 'o' -> AWorld | 'm' -> AWorldMut | 's' -> ASetup
  | 'r' -> ARunning (res = "1") | _ -> failwith "op"

let check_line (line : string) : unit =
  match String.index_opt line '\t' with
  | None -> ()
  | Some tab when String.sub line (tab + 1) (String.length line - tab - 1) = "hang" ->
      (* the harness watchdog: this case did not come back within its time budget (a dispatch that never returns) *)
      incr n_cases; incr n_oracle;
      Printf.printf "O hang L0\t%s\n" (String.sub line 0 tab)
  | Some tab ->
      let case = String.sub line 0 tab in
      let real_s = String.sub line (tab + 1) (String.length line - tab - 1) in
      let head, prog_s = match Str.bounded_split (Str.regexp_string " :: ") case 2 with [h; p] -> (h, p) | [h] -> (h, "") | _ -> (case, "") in
      let param k = List.fold_left (fun acc t ->
          let pre = k ^ "=" in
          if String.length t > String.length pre && String.sub t 0 (String.length pre) = pre
          then String.sub t (String.length pre) (String.length t - String.length pre) else acc) "" (split_on ' ' head) in
      let regs = Plan_suite.parse_program prog_s in
      incr n_cases;
      if List.length !samples < 4 && !n_cases mod 29 = 1 then
        samples := (if String.length line > 1500 then String.sub line 0 1500 ^ "..." else line) :: !samples;
      let fields = List.filter_map (fun kv -> match String.index_opt kv '=' with
          | Some i -> Some (String.sub kv 0 i, String.sub kv (i + 1) (String.length kv - i - 1)) | None -> None) (split_on ';' real_s) in
      let get k = try List.assoc k fields with Not_found -> "" in
      let disagree field m r = incr n_disagree; Printf.printf "D %s L0 model=%s real=%s\t%s\n" field m r case in
      let oracle name = incr n_oracle; Printf.printf "O %s L0\t%s\n" name case in
      if get "builderr" <> "" then disagree "builderr" "ok" (get "builderr") else
      match model_layout regs with
      | None -> disagree "level-plan" "error" "built"
      | Some (lay, tl) ->
          let stags = List.map int_of_n (sys_tags regs) and ttags = List.map int_of_n (tl_tags regs) in
          let toks_s = if get "T" = "-" then [] else split_on ',' (get "T") in
          (* tokens for the acceptor + raw oracles *)
          let tl_thread : (int, bool) Hashtbl.t = Hashtbl.create 8 in
          let opened : (int, unit) Hashtbl.t = Hashtbl.create 16 in
          let in_wait = ref false in
          let tl_in_this_wait = ref [] in
          let held_phase = ref false in
          let dispatched = ref 0 in
          let fcount : (int, int) Hashtbl.t = Hashtbl.create 16 in
          let toks = List.filter_map (fun t ->
              let k = t.[0] in
              if k = 'N' then begin
                let kind = t.[1] in
                (* N b|e|p|h <index> <op> [result] *)
                let rest = String.sub t 2 (String.length t - 2) in
                if kind = 'h' then (held_phase := (rest.[String.length rest - 1] = '1'); None)
                else begin
                  let i = ref 0 in
                  while !i < String.length rest && (rest.[!i] >= '0' && rest.[!i] <= '9' || rest.[!i] = 'z') do incr i done;
                  let op = rest.[!i] in
                  let res = String.sub rest (!i + 1) (String.length rest - !i - 1) in
                  if kind = 'b' then begin
                    if op <> 'r' then held_phase := false;
                    if op = 'w' then (in_wait := true; tl_in_this_wait := []);
                    if op = 'd' then incr dispatched;
                    Some (TBegin (aop_of op res))
                  end else if kind = 'e' then begin
                    if op = 'w' then begin
                      in_wait := false;
                      (* C12/C15: every wait() runs all thread-local systems, once each, in registration order *)
                      if List.rev !tl_in_this_wait <> ttags then oracle "wait_runs_thread_locals_in_order"
                    end;
                    (* C15 oracles on the raw log *)
                    if op = 'r' && !held_phase && res = "0" then oracle "running_false_while_a_system_is_inside_run";
                    if List.mem op ['w'; 'n'; 'o'; 'm'; 's'] then begin
                      if Hashtbl.length opened > 0 then oracle "accessor_returned_while_a_system_is_running";
                      (* every ordinary system has run once per dispatch begun so far *)
                      List.iter (fun s -> if (try Hashtbl.find fcount s with Not_found -> 0) <> !dispatched then oracle "accessor_returned_before_all_finished") stags
                    end;
                    if op = 'r' && res = "0" && Hashtbl.length opened > 0 then oracle "running_false_while_a_system_is_inside_run";
                    Some (TEnd (aop_of op res))
                  end else begin oracle "operation_panicked"; None end
                end
              end else begin
                let j = ref 1 in
                while !j < String.length t && t.[!j] >= '0' && t.[!j] <= '9' do incr j done;
                let tag = int_of_string (String.sub t 1 (!j - 1)) in
                let thr = String.sub t !j (String.length t - !j) in
                let e = if k = 'F' then Some (EF (n_of_int tag)) else if k = 'R' then Some (ER (n_of_int tag)) else None in
                match e with
                | None -> oracle "borrow_panic"; None
                | Some e ->
                    if List.mem tag stags then begin
                      if k = 'F' then (Hashtbl.replace opened tag (); Hashtbl.replace fcount tag (1 + try Hashtbl.find fcount tag with Not_found -> 0))
                      else Hashtbl.remove opened tag;
                      Some (TEv e)
                    end else if List.mem tag ttags then begin
                      if k = 'F' then begin
                        Hashtbl.replace tl_thread tag (thr = "c");
                        tl_in_this_wait := tag :: !tl_in_this_wait;
                        (* C15/C12: thread-local systems run only inside wait, on the calling thread, after all others *)
                        if not !in_wait then oracle "thread_local_outside_wait";
                        if thr <> "c" then oracle "thread_local_off_the_calling_thread";
                        if Hashtbl.length opened > 0 then oracle "thread_local_while_a_system_is_running"
                      end;
                      Some (TTl (e, (try Hashtbl.find tl_thread tag with Not_found -> false)))
                    end else None          (* events of systems inside batches: checked by suite S2 *)
              end) toks_s in
          (match acc_run lay tl acc_init toks O with
           | Inr _ -> ()
           | Inl i -> disagree "async_accept" "accepted" (Printf.sprintf "rejected at token %d" (int_of_nat i)));
          if get "ok" <> "1" then oracle "operation_panicked";
          (* C13: every setup() of the operation list visits every system once, in the order of the model (Visit.v) *)
          let model_order = List.map int_of_n (visits regs) in
          let ints s = if s = "-" || s = "" then [] else List.map int_of_string (split_on '.' s) in
          let n_setup_ops = List.length (List.filter (fun o -> o = "s") (split_on ',' (param "ops"))) in
          let entries = if get "setups" = "-" || get "setups" = "" then [] else split_on ',' (get "setups") in
          if get "setups" <> "" then begin
            if List.length entries <> n_setup_ops then oracle "setup_visits";
            List.iter (fun e -> match split_on ':' e with
                | [i; tags] ->
                    if String.length i > 0 && i.[0] = '!' then ()     (* the operation panicked: reported above *)
                    else begin
                      let got = ints tags in
                      if got <> model_order then disagree "setup_order" (tok_of_ints model_order) (tok_of_ints got);
                      if List.sort compare got <> List.sort compare model_order then oracle "setup_visits"
                    end
                | _ -> oracle "setup_visits") entries
          end;
          (* C14/C12 epilogue: a thread-local system panicking inside wait() *)
          if param "tlf" <> "-" && param "tlf" <> "" && get "fe1p" <> "" then begin
            let f = int_of_string (param "tlf") in
            (* the thread-local pass with a fault is the faulty group of the model (Fault.v fgroup: front to back until the
               first panic; FaultProps: panic iff a listed system is reached, nothing behind it runs) *)
            let (fevs, panics) = fgroup [n_of_int f] (List.map n_of_int ttags) in
            let upto _ = List.filter_map (function FF t -> Some (int_of_n t) | _ -> None) fevs in
            if ints (get "fe1") <> upto ttags || (get "fe1p" = "1") <> panics then oracle "tl_panic_contained";
            if ints (get "fe2") <> ttags || get "fe2p" <> "0" then oracle "next_dispatch";
            if get "fe3p" <> "0" || List.sort compare (ints (get "fe3")) <> List.sort compare model_order then oracle "setup_visits";
            let parse_runs s = if s = "" then [] else List.map (fun kv -> match split_on ':' kv with [a; b] -> (int_of_string a, int_of_string b) | _ -> (-1, -1)) (split_on ',' s) in
            let r0 = parse_runs (get "runs") and r1 = parse_runs (get "feruns") in
            List.iter (fun s -> match List.assoc_opt s r0, List.assoc_opt s r1 with
                | Some a, Some b -> if b <> a + 2 then oracle "next_dispatch" | _ -> ()) stags;
            let before = upto ttags in
            List.iter (fun t -> match List.assoc_opt t r0, List.assoc_opt t r1 with
                | Some a, Some b -> if b <> a + (if List.mem t before then 2 else 1) then oracle "next_dispatch" | _ -> ()) ttags
          end;
          (* exactly once per dispatch (C15): run counters *)
          let runs = if get "runs" = "" then [] else List.map (fun kv -> match split_on ':' kv with [a; b] -> (int_of_string a, int_of_string b) | _ -> (-1, -1)) (split_on ',' (get "runs")) in
          List.iter (fun s -> match List.assoc_opt s runs with Some n -> if n <> !dispatched then oracle "async_once" | None -> ()) stags;
          let key = head ^ prog_s in
          if not (Hashtbl.mem seen key) then begin
            Hashtbl.add seen key ();
            bump ("pool:" ^ param "pool"); bump (if param "hold" = "-" then "no-hold" else "hold");
            bump ("ops:" ^ Plan_suite.bucket (List.length (split_on ',' (param "ops"))));
            bump ("dispatches:" ^ Plan_suite.bucket !dispatched);
            if Sys.getenv_opt "VERIF_HASHES" <> None && !dispatched >= 1 then Printf.printf "H %s\n" (Digest.to_hex (Digest.string key))
          end

let summary () =
  let h = Hashtbl.fold (fun k v acc -> Printf.sprintf "\"%s\":%d" (Plan_suite.json_escape k) v :: acc) hist [] in
  Printf.printf "SUMMARY {\"suite\":\"async\",\"cases\":%d,\"disagreements\":%d,\"oracle_failures\":%d,\"hist\":{%s},\"samples\":[%s]}\n"
    !n_cases !n_disagree !n_oracle
    (String.concat "," (List.sort compare h))
    (String.concat "," (List.map (fun s -> "\"" ^ Plan_suite.json_escape s ^ "\"") (List.rev !samples)))

let run () =
  (try
     while true do
       let line = input_line stdin in
       (try check_line line
        with e ->
          incr n_disagree;
          Printf.printf "D driver-exception L0 model=%s real=?\t%s\n" (Plan_suite.json_escape (Printexc.to_string e))
            (match String.index_opt line '\t' with Some t -> String.sub line 0 t | None -> line))
     done
   with End_of_file -> ());
  summary ()
