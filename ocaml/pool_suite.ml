(* pool_suite.ml — suite S8: rendezvous stages on the real pools <-> M8 (Pool.v). *)
open Model
open Util

let n_cases = ref 0 and n_disagree = ref 0 and n_oracle = ref 0
let hist : (string, int) Hashtbl.t = Hashtbl.create 64
let bump k = Hashtbl.replace hist k (1 + try Hashtbl.find hist k with Not_found -> 0)
let samples : string list ref = ref []

let check_line (line : string) : unit =
  match String.index_opt line '\t' with
  | None -> ()
  | Some tab ->
      let case = String.sub line 0 tab in
      let real_s = String.sub line (tab + 1) (String.length line - tab - 1) in
      let param k = List.fold_left (fun acc t ->
          let pre = k ^ "=" in
          if String.length t > String.length pre && String.sub t 0 (String.length pre) = pre
          then String.sub t (String.length pre) (String.length t - String.length pre) else acc) "" (split_on ' ' case) in
      let width = int_of_string (param "width") and threads = int_of_string (param "threads") in
      incr n_cases;
      if List.length !samples < 6 && !n_cases mod 17 = 1 then samples := line :: !samples;
      let disagree field m r = incr n_disagree; Printf.printf "D %s L0 model=%s real=%s\t%s\n" field m r case in
      let oracle name = incr n_oracle; Printf.printf "O %s L0\t%s\n" name case in
      let reps = split_on ',' real_s in
      let completed = List.for_all (fun r -> List.mem "timeout=0" (split_on ':' r) && List.mem "ok=1" (split_on ':' r)) reps in
      let all_inside = List.for_all (fun r -> List.exists (fun f -> f = "arrived=" ^ string_of_int width) (split_on ':' r)) reps in
      let model = pool_can_rendezvous (nat_of_int threads) (nat_of_int width) in
      bump ("cfg:" ^ param "cfg"); bump ("width:" ^ param "width"); bump (if model then "expected:completes" else "expected:deadlocks");
      if real_s = "builderr" then disagree "builderr" "ok" "builderr"
      else if model && not (completed && all_inside) then begin
        (* enough idle threads, and still the systems of the stage were not all inside run together *)
        oracle "stage_serialised"
      end else if (not model) && completed then disagree "pool-model" "deadlock" "completed";
      if Sys.getenv_opt "VERIF_HASHES" <> None then Printf.printf "H %s\n" (Digest.to_hex (Digest.string case))

let summary () =
  let h = Hashtbl.fold (fun k v acc -> Printf.sprintf "\"%s\":%d" (Plan_suite.json_escape k) v :: acc) hist [] in
  Printf.printf "SUMMARY {\"suite\":\"pool\",\"cases\":%d,\"disagreements\":%d,\"oracle_failures\":%d,\"hist\":{%s},\"samples\":[%s]}\n"
    !n_cases !n_disagree !n_oracle
    (String.concat "," (List.sort compare h))
    (String.concat "," (List.map (fun s -> "\"" ^ Plan_suite.json_escape s ^ "\"") (List.rev !samples)))

let run () =
  (try
     while true do
       let line = input_line stdin in
       (try check_line line
        with e ->
          incr n_disagree;
          Printf.printf "D driver-exception L0 model=%s real=?\t%s\n" (Plan_suite.json_escape (Printexc.to_string e))
            (match String.index_opt line '\t' with Some t -> String.sub line 0 t | None -> line))
     done
   with End_of_file -> ());
  summary ()
